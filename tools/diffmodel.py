#!/venv/bin/python
"""diffmodel.py <shard.ndjson> <record index>: what IR!ApplyX says vs what was observed"""
import json, os, sys, tempfile
sys.path.insert(0, '/verif/conform')
import tlcrun, irflow
path, k = sys.argv[1], int(sys.argv[2])
rec = irflow.read_record(path, k)
pre = irflow.read_record(path, rec['pre'])['state']
f = tempfile.NamedTemporaryFile('w', suffix='.json', delete=False)
json.dump({'state': pre, 'call': rec['call']}, f); f.close()
out = []
res = tlcrun.run('Eval', 'INIT Init\nNEXT Next\n', workers=1, env={'EVAL_FILE': f.name}, on_line=out.append)
os.unlink(f.name)
ev = [tlcrun.parse_print(l, 'EVAL') for l in out if l.startswith('<<"EVAL"')]
if not ev:
    print('\n'.join(out[-30:])); sys.exit(1)
m = ev[0]
post = rec.get('state', pre)
print('call', rec['call'], 'impl out', rec['out'], 'model out', m['out'], 'ret', rec.get('ret'), m.get('ret'))
for fld in sorted(set(m['s']) | set(post)):
    a, b = m['s'].get(fld), post.get(fld)
    if fld == 'defRefs':
        a = [sorted(x) for x in a]
    if a != b:
        print(fld, '\n   model:', json.dumps(a)[:600], '\n   impl :', json.dumps(b)[:600])
