#!/bin/sh
# for every stored seeded change: does validation of the repository's own test traces notice it?
trap 'git -C /repo checkout -q -- .' EXIT INT TERM
for S in /verif/seeded/*/; do
  N=$(basename $S)
  git -C /repo apply $S/patch.diff 2>/dev/null || { echo "$N: patch does not apply"; continue; }
  echo "$N: $(PYTHONHASHSEED=0 PYTHONPATH=/repo /venv/bin/python /verif/tools/suite_probe.py 2>&1 | head -3 | tr '\n' ' ')"
  git -C /repo checkout -q -- .
done
