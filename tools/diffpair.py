#!/venv/bin/python
"""diffpair.py <shard.ndjson> <record index> <E|V|C>: canon of (pre, call.n) vs canon of (post, ret[0])"""
import json, os, sys, tempfile
sys.path.insert(0, '/verif/conform')
import tlcrun, irflow
path, k, kind = sys.argv[1], int(sys.argv[2]), sys.argv[3]
rec = irflow.read_record(path, k)
pre = irflow.read_record(path, rec['pre'])['state']
post = rec.get('state', pre)
f = tempfile.NamedTemporaryFile('w', suffix='.json', delete=False)
json.dump({'pre': pre, 'post': post, 'n1': rec['call']['n'], 'n2': rec['ret'][0], 'kind': kind}, f); f.close()
out = []
res = tlcrun.run('EvalPair', 'INIT Init\nNEXT Next\n', workers=1, env={'EVAL_FILE': f.name}, on_line=out.append)
os.unlink(f.name)
ev = [tlcrun.parse_print(l, 'EVAL') for l in out if l.startswith('<<"EVAL"')]
if not ev:
    print('\n'.join(out[-30:])); sys.exit(1)
def norm(x): return json.dumps(x, sort_keys=True)
def diff(a, b, where):
    if isinstance(a, dict) and isinstance(b, dict):
        for f_ in sorted(set(a) | set(b)):
            if norm(a.get(f_)) != norm(b.get(f_)):
                diff(a.get(f_), b.get(f_), where + '.' + f_)
    elif isinstance(a, list) and isinstance(b, list):
        sa = {norm(x) for x in a}; sb = {norm(x) for x in b}
        for x in sorted(sa - sb): print(where, 'before only:', x[:500])
        for x in sorted(sb - sa): print(where, 'after  only:', x[:500])
        if sa == sb: print(where, 'same members, different order/multiplicity')
    else:
        print(where, 'before:', norm(a)[:300], 'after:', norm(b)[:300])
diff(ev[0]['a'], ev[0]['b'], '')
