#!/venv/bin/python
"""suite_probe.py: record the repository's tests through the hook, validate with Trace.tla, print clause counts"""
import sys, os, glob, collections, shutil, tempfile
sys.path.insert(0, '/verif/conform')
import suiteflow, irflow
d = tempfile.mkdtemp(prefix='suiteprobe-')
try:
    out, tail = suiteflow.record(d)
    paths, tot = suiteflow.shard(out, d)
    os.remove(out)
    v = irflow.validate(paths, strict=False)
    cf = collections.Counter()
    for x in v:
        if x['errors'] or not x['complete']:
            print('MACHINERY', x['errors'][:2])
        for k, cl in x['fails']:
            hdr, hist, rec = irflow.history_of(x['path'], k)
            cf[(cl, hdr.get('seg', '')[-60:])] += 1
    print(tail, '| records', tot['records'], '| fails', sum(cf.values()), dict(collections.Counter(c for c, _ in cf.elements())))
    for k, n in cf.most_common(4):
        print('   ', n, k)
finally:
    shutil.rmtree(d, ignore_errors=True)
