#!/bin/sh
# confirm_seed.sh <worktree> <seed_dir>...  : for each seed dir (patch.diff, demo.py) confirm in the
# scratch worktree (reset to /repo's HEAD): demo passes without, fails with; test-suite unchanged.
WT=$1; shift
cd "$WT" || exit 2
git checkout -q --detach $(git -C /repo rev-parse HEAD) 2>/dev/null
git checkout -q -- . 
export EXAMPLE_NETLISTS_PATH=$WT/example_netlists
for S in "$@"; do
  N=$(basename "$S")
  L="$S/confirm.log"; : > "$L"
  /venv/bin/python "$S/demo.py" >> "$L" 2>&1; A=$?
  if ! git apply --3way "$S/patch.diff" >> "$L" 2>&1; then echo "$N: PATCH-DOES-NOT-APPLY" | tee -a "$L"; git checkout -q -- .; continue; fi
  git reset -q
  /venv/bin/python "$S/demo.py" >> "$L" 2>&1; B=$?
  T=$(/venv/bin/python -m pytest -q -p no:cacheprovider --timeout=900 2>&1 | tail -1)
  git checkout -q -- .
  echo "$N: demo_clean_rc=$A demo_patched_rc=$B tests: $T" | tee -a "$L"
done
