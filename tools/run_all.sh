#!/bin/sh
# run every claimed check of the given tier, one after another; prints one line per check
TIER=${1:-quick}
cd /verif
for P in $(python3 -c "import json;print(' '.join(c['property_id'] for c in json.load(open('MANIFEST.json'))['checks']))"); do
  S=$(date +%s); OUT=$(bin/check $P --tier $TIER 2>/tmp/run_all_err.$$); RC=$?; E=$(date +%s)
  echo "$P rc=$RC $((E-S))s $(echo "$OUT" | grep -c '^VIOLATION') violations $(echo "$OUT" | grep -c '^KNOWN-FINDING') known"
  [ $RC -ne 0 ] && { echo "$OUT" | head -5 | cut -c1-300; tail -3 /tmp/run_all_err.$$ | cut -c1-300; }
done
rm -f /tmp/run_all_err.$$
