import ast,sys
def strip(path):
    src=open(path).read()
    tree=ast.parse(src)
    lines=src.split('\n')
    kill=set()
    for node in ast.walk(tree):
        if isinstance(node,(ast.FunctionDef,ast.ClassDef,ast.Module)):
            b=node.body
            if b and isinstance(b[0],ast.Expr) and isinstance(getattr(b[0],'value',None),ast.Constant) and isinstance(b[0].value.value,str):
                for i in range(b[0].lineno-1,b[0].end_lineno): kill.add(i)
    out=['%4d %s'%(i+1,l) for i,l in enumerate(lines) if i not in kill and l.strip() and not l.strip().startswith('#')]
    print('#####',path); print('\n'.join(out))
for p in sys.argv[1:]: strip(p)
