#!/usr/bin/env python3
"""design_table.py: refresh the table of section 5 of DESIGN.md - the scope column from conform/properties.py
(IR_RUNS, quick tier), the time column from the evidence files; the clause column is kept as written."""
import json, os, re, sys
ROOT = os.path.dirname(os.path.dirname(os.path.abspath(__file__)))
sys.path.insert(0, os.path.join(ROOT, "conform"))
import properties


def fmt(runs):
    out = []
    for r in runs:
        if r[0] == "MC":
            out.append("%s %d%s" % (r[1], r[2], (" sim %d" % r[3]) if len(r) > 3 else ""))
        elif r[0] == "SUITE":
            out.append("SUITE")
        elif r[0] == "FILES":
            out.append("FILES %s" % r[1])
    return ", ".join(out)


path = os.path.join(ROOT, "DESIGN.md")
lines = open(path).read().split("\n")
for i, l in enumerate(lines):
    m = re.match(r"^\| (C\d\d) \| (.*?) \| (.*) \| (.*?) \|$", l)
    if not m or m.group(1) not in properties.IR_RUNS:
        continue
    pid = m.group(1)
    t = m.group(4)
    ev = os.path.join(ROOT, "evidence", pid + ".json")
    if os.path.exists(ev):
        e = json.load(open(ev))
        if e.get("tier") == "quick" and "wall_s" in e:
            t = "%d s" % round(e["wall_s"])
    lines[i] = "| %s | %s | %s | %s |" % (pid, fmt(properties.IR_RUNS[pid]["quick"]), m.group(3), t)
open(path, "w").write("\n".join(lines))
print("table refreshed")
