#!/usr/bin/env python3
"""(Re)generate /verif/MANIFEST.json from the table below.  Run with python3-vt to validate."""
import json, os, subprocess, sys
ROOT = os.path.dirname(os.path.dirname(os.path.abspath(__file__)))
props = [json.loads(l) for l in open(os.path.join(ROOT, 'properties.jsonl'))]
sys.path.insert(0, os.path.join(ROOT, 'tools'))
from manifest_table import CHECKS, NOT_APPLICABLE, HOOK_COMMITS, NOTES
checks = []
for p in props:
    pid = p['id']
    if pid not in CHECKS:
        continue
    c = CHECKS[pid]
    checks.append({
        "property_id": pid,
        "quick_cmd": "bin/check %s --tier quick" % pid,
        "thorough_cmd": "bin/check %s --tier thorough" % pid,
        "evidence_file": "/verif/evidence/%s.json" % pid,
        "replay_cmd_template": "bin/check %s --replay {path}" % pid,
        "engine": "tlc-model-and-trace",
        "level_claimed": {"category": c['category'], "text": c['text'], "design_ref": c['design_ref']},
        "level_note": c['note'],
        "technique": c['technique'],
    })
na = [{"property_id": p['id'], "reason": NOT_APPLICABLE.get(p['id'], "check not built yet (work in progress, see DESIGN.md section 9)")}
      for p in props if p['id'] not in CHECKS]
m = {"version": 1,
     "setup_cmd": "bin/setup",
     "hooks": {"guard": "SPYDRNET_VERIF",
               "enable": "nothing is built; conform/suiteflow.py runs the repository tests with SPYDRNET_VERIF=1 and /verif/conform on PYTHONPATH, which makes spydrnet/__init__.py import conform/spydrnet_verif_recorder.py and let it wrap the public mutators (one trace record per outermost call); every other check runs with the variable unset, i.e. on the unhooked code",
               "baseline_off_cmd": "cd /repo && env -u SPYDRNET_VERIF /venv/bin/python -m pytest -ra -q -p no:cacheprovider --timeout=900 --continue-on-collection-errors",
               "source_commits": HOOK_COMMITS, "add_only": True},
     "engines": [{"name": "tlc-model-and-trace", "path": "/verif/spec",
                  "serves_properties": sorted(CHECKS),
                  "kind_free_text": "explicit TLA+ specification (spec/*.tla) model-checked by TLC; TLC-generated behaviours replayed into the real classes (conform/), observed traces validated by TLC against the property predicates (verdict) and the model's transition function (conformance)"}],
     "checks": checks, "notes": NOTES, "not_applicable": na}
json.dump(m, open(os.path.join(ROOT, 'MANIFEST.json'), 'w'), indent=1)
try:
    import jsonschema
    jsonschema.validate(m, json.load(open('/root/.vp/MANIFEST.schema.json')))
    print("MANIFEST valid:", len(checks), "checks,", len(na), "not claimed")
except ImportError:
    print("written (jsonschema not available in this interpreter: run with python3-vt to validate)")
