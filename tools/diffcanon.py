#!/venv/bin/python
"""diffcanon.py <shard.ndjson> <record index> [n]: Canon(state, n) vs FileCanon(record.filecanon), per cell"""
import json, os, sys, tempfile
sys.path.insert(0, '/verif/conform')
import tlcrun, irflow
path, k = sys.argv[1], int(sys.argv[2])
rec = irflow.read_record(path, k)
c = rec['call']
if c['op'] == 'edif_rt':
    st, n = irflow.read_record(path, rec['pre'])['state'], c['n']
else:
    st, n = rec['state'], rec['ret'][0]
n = int(sys.argv[3]) if len(sys.argv) > 3 else n
f = tempfile.NamedTemporaryFile('w', suffix='.json', delete=False)
json.dump({'state': st, 'n': n, 'filecanon': rec['filecanon']}, f); f.close()
out = []
res = tlcrun.run('EvalCanon', 'INIT Init\nNEXT Next\n', workers=1, env={'EVAL_FILE': f.name}, on_line=out.append)
os.unlink(f.name)
ev = [tlcrun.parse_print(l, 'EVAL') for l in out if l.startswith('<<"EVAL"')]
if not ev:
    print('\n'.join(out[-30:])); sys.exit(1)
m = ev[0]
print('in domain:', m['dom'], m.get('eq'))
def norm(x):
    return json.dumps(x, sort_keys=True)
a, b = m['canon'], m['file']
for fld in ('name', 'top'):
    if a[fld] != b[fld]:
        print(fld, 'state:', a[fld], 'file:', b[fld])
la = {l['name']: l for l in a['libs']}; lb = {l['name']: l for l in b['libs']}
for ln in sorted(set(la) | set(lb)):
    if ln not in la or ln not in lb:
        print('library', ln, 'only in', 'state' if ln in la else 'file'); continue
    ca = {x['name']: x for x in la[ln]['cells']}; cb = {x['name']: x for x in lb[ln]['cells']}
    for cn in sorted(set(ca) | set(cb)):
        if cn not in ca or cn not in cb:
            print('cell', ln, cn, 'only in', 'state' if cn in ca else 'file'); continue
        for fld in ('ports', 'insts', 'nets'):
            xa, xb = ca[cn][fld], cb[cn][fld]
            if fld != 'ports':
                xa = sorted(xa, key=norm); xb = sorted(xb, key=norm)
            if norm(xa) != norm(xb):
                sa = [norm(x) for x in xa]; sb = [norm(x) for x in xb]
                print('cell', ln, cn, fld)
                for x in sa:
                    if x not in sb: print('    state only:', x[:400])
                for x in sb:
                    if x not in sa: print('    file  only:', x[:400])
