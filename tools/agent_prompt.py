#!/usr/bin/env python3
"""Print the prompt given to a mutation sub-agent for one property (property text only)."""
import json, sys
pid, n = sys.argv[1], (sys.argv[2] if len(sys.argv) > 2 else "2")
wt = sys.argv[3] if len(sys.argv) > 3 else f"/tmp/wt/{pid}"
p = next(json.loads(l) for l in open('/verif/properties.jsonl') if json.loads(l)['id'] == pid)
import glob, os
taken = []
for m in sorted(glob.glob(f'/verif/seeded/{pid}_*/meta.json')):
    taken.append(json.load(open(m)).get('summary', ''))
start = 1 + max([int(os.path.basename(os.path.dirname(m)).split('_')[1]) for m in glob.glob(f'/verif/seeded/{pid}_*/meta.json')] or [0])
avoid = ""
if taken:
    avoid = "\nOther engineers have ALREADY produced the following changes for this property; yours must be different in kind (other code sites, other mechanisms), not variations of them:\n" + "".join(f"  - {t}\n" for t in taken) + f"Number your changes starting at {start} (directories {pid}_{start}, {pid}_{start+1}, ...).\n"
print(f"""You are helping to evaluate a verification effort for the Python library byuccl/spydrnet (a pure-Python FPGA netlist framework). You work ONLY inside the scratch git worktree {wt} (a checkout of the library). Do not read or touch /repo, /verif or any other directory; do not look for verification machinery anywhere.

Here is a semantic property the library is supposed to satisfy:

  id: {p['id']}
  title: {p['title']}
  statement: {p['statement']}
  quantifier: {p['quantifier']['text']}
  code it is anchored in: {', '.join(p['anchors']['files'])}

{avoid}
Your task: produce {n} DIFFERENT, independent, realistic source changes ("seeded bugs") to the library code under {wt}/spydrnet, each of which
  (a) breaks the property above (a user relying on the statement would be wronged),
  (b) still imports/compiles and still passes the ENTIRE existing test-suite, run as:
        cd {wt} && /venv/bin/python -m pytest -q -p no:cacheprovider --timeout=900 2>&1 | tail -5
      (on the unchanged tree this prints "4 failed, 580 passed, 7 skipped, 32 xfailed ..." - the 4 failures are pre-existing sub-tests about two 0-byte example zip files and are the baseline; with your change the summary must be exactly the same; the suite takes about 15 seconds; run it for each change separately), and
  (c) needs something SPECIFIC to manifest: a particular multi-step sequence of operations, an unusual input, a particular order of calls, a refused call at a particular point, or two cooperating sites that each look fine alone. Do NOT make changes that ordinary use exposes at once (e.g. breaking the basic effect of a common call). Prefer bugs of the kind a real maintainer could plausibly introduce in a refactoring or optimisation (a lost update in a rarely used branch, a stale cache entry, an off-by-one in an index, a wrong variable in a rarely used path, a missing rollback, a changed order of two statements).
Each change must be small (a few lines), must only touch files under spydrnet/ (not tests, not examples), and must be a behaviour change, not a crash-on-import.

For each change i deliver, in the directory {wt}/_seeded/{pid}_<i>/ :
  - patch.diff : output of `git diff` for that change alone relative to the unchanged tree (so that `git apply patch.diff` on a clean checkout reproduces it);
  - demo.py : a small standalone program, run as `cd {wt} && EXAMPLE_NETLISTS_PATH={wt}/example_netlists /venv/bin/python _seeded/{pid}_<i>/demo.py`, that uses only the public API of spydrnet, exits 0 and prints PASS on the unchanged tree, and exits 1 and prints FAIL (with a short explanation of what was observed) with the change applied. The demo must check something the property statement actually promises.
  - meta.json : {{"property": "{pid}", "summary": "<one sentence: what the change does>", "needs": "<what specific sequence/input/condition it needs in order to manifest>", "files": [...], "tests_passed": true}}
Work on one change at a time: make it, run the demo (must FAIL), run the full test-suite (must pass), save `git diff -- spydrnet > _seeded/{pid}_<i>/patch.diff`, then `git checkout -- spydrnet` to restore the tree, run the demo again (must PASS), and go on to the next. Leave the worktree clean at the end (apart from the untracked _seeded directory). If a candidate change makes an existing test fail, discard it and try another one. Do not commit anything.

Never use `git stash` (it is shared between worktrees). Demos run from a sub-directory need `import sys, os; sys.path.insert(0, os.getcwd())` before `import spydrnet`.
Notes: python is /venv/bin/python (3.12); spydrnet is imported from the worktree when cwd is the worktree (import spydrnet as sdn). There is no network. Report back a short list of what you produced (one line per change) - nothing else is needed.""")
