#!/usr/bin/env python3
"""adopt_seed.py <worktree> <seed id>...: copy a confirmed seeded change into /verif/seeded/<id>/"""
import json, os, shutil, sys
wt = sys.argv[1]
for sid in sys.argv[2:]:
    src = os.path.join(wt, "_seeded", sid)
    log = open(os.path.join(src, "confirm.log")).read().strip().splitlines()[-1]
    if "demo_clean_rc=0 demo_patched_rc=1" not in log or "4 failed, 580 passed" not in log:
        print(sid, "NOT CONFIRMED:", log); continue
    dst = os.path.join("/verif/seeded", sid)
    os.makedirs(dst, exist_ok=True)
    shutil.copy(os.path.join(src, "patch.diff"), dst)
    shutil.copy(os.path.join(src, "demo.py"), dst)
    meta = json.load(open(os.path.join(src, "meta.json")))
    meta["confirmed"] = {"how": "tools/confirm_seed.sh in a scratch worktree at /repo HEAD: demo without patch, git apply, demo with patch, full pytest suite, revert", "result": log}
    meta["round"] = int(os.environ.get("SEED_ROUND", "2"))
    json.dump(meta, open(os.path.join(dst, "meta.json"), "w"), indent=1)
    print(sid, "adopted")
