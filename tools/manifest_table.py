HOOK_COMMITS = []
NOTES = ("All checks share one pipeline: TLC model-checks a scope of spec/MC*.tla and emits every explored state with its "
         "candidate calls; conform/ replays them on the classes imported from /repo; TLC (spec/Trace*.tla) judges the "
         "observed transitions with the predicates of spec/Props.tla. See DESIGN.md.")
_IR_NOTE = ("Bounded: the scopes (universe, call alphabet, depth) listed in the evidence file; the projection "
            "conform/harness.py (public read API) is trusted; TLC and the JSON bridge are trusted.")
CHECKS = {
 "C01": {"category": "model_checking", "design_ref": "5 (C01), 4",
         "technique": "TLC model checking of spec/IR.tla + replay of every explored (state, call) into the real classes + TLC trace validation with Props.tla predicates",
         "text": "TLC explores every history of valid and refused mutator calls inside bounded scopes of the IR state machine and checks the ownership and pin-wire invariants on the model; every explored (state, call) pair is executed on the real classes and TLC evaluates the same invariants on the observed post-state, plus strict conformance of the transition to the model.",
         "note": _IR_NOTE},
 "C02": {"category": "model_checking", "design_ref": "5 (C02), 4",
         "technique": "TLC model checking of spec/IR.tla (scopes mirror, conn) + replay + TLC trace validation",
         "text": "Reference sets and the outer-pin mirror are TLC invariants of the model over all orders of port/pin edits and reference changes in the mirror scope; every explored transition is replayed on the real classes and judged by TLC with the same predicates (including the re-pointing action predicate).",
         "note": _IR_NOTE},
 "C14": {"category": "fault_enumeration", "design_ref": "5 (C14), 4",
         "technique": "TLC enumerates every (reachable state, precondition-violating call) pair of spec/IR.tla; each is injected into the real classes and TLC checks post-state = pre-state",
         "text": "The fault space is (reachable abstract state) x (every mutator call whose arguments violate a precondition or the naming policy), enumerated by TLC; each refused call is executed on the real objects and the whole projected state before and after is compared by the TLC predicate C14_RefusedUnchanged.",
         "note": _IR_NOTE},
}
NOT_APPLICABLE = {}
