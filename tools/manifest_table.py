HOOK_COMMITS = []
NOTES = ("All checks share one pipeline: TLC model-checks a scope of spec/MC*.tla and emits every explored state with its "
         "candidate calls; conform/ replays them on the classes imported from /repo; TLC (spec/Trace*.tla) judges the "
         "observed transitions with the predicates of spec/Props.tla. See DESIGN.md.")
_IR_NOTE = ("Bounded: the scopes (universe, call alphabet, depth) listed in the evidence file; the projection "
            "conform/harness.py (public read API) is trusted; TLC and the JSON bridge are trusted.")
CHECKS = {
 "C01": {"category": "model_checking", "design_ref": "5 (C01), 4",
         "technique": "TLC model checking of spec/IR.tla + replay of every explored (state, call) into the real classes + TLC trace validation with Props.tla predicates",
         "text": "TLC explores every history of valid and refused mutator calls inside bounded scopes of the IR state machine and checks the ownership and pin-wire invariants on the model; every explored (state, call) pair is executed on the real classes and TLC evaluates the same invariants on the observed post-state, plus strict conformance of the transition to the model.",
         "note": _IR_NOTE},
 "C02": {"category": "model_checking", "design_ref": "5 (C02), 4",
         "technique": "TLC model checking of spec/IR.tla (scopes mirror, conn) + replay + TLC trace validation",
         "text": "Reference sets and the outer-pin mirror are TLC invariants of the model over all orders of port/pin edits and reference changes in the mirror scope; every explored transition is replayed on the real classes and judged by TLC with the same predicates (including the re-pointing action predicate).",
         "note": _IR_NOTE},
 "C14": {"category": "fault_enumeration", "design_ref": "5 (C14), 4",
         "technique": "TLC enumerates every (reachable state, precondition-violating call) pair of spec/IR.tla; each is injected into the real classes and TLC checks post-state = pre-state",
         "text": "The fault space is (reachable abstract state) x (every mutator call whose arguments violate a precondition or the naming policy), enumerated by TLC; each refused call is executed on the real objects and the whole projected state before and after is compared by the TLC predicate C14_RefusedUnchanged.",
         "note": _IR_NOTE},
 "C10": {"category": "model_checking", "design_ref": "5 (C10), 4, Appendix B",
         "technique": "TLC model checking of the naming relation in spec/IR.tla (scopes naming, naming_edif, naming_mix) + replay with a full lookup table after every call + TLC trace validation (C10_Unique, C10_LegalIds, C10_RefusalExact, C10_LookupAgrees)",
         "text": "The specification defines naming by scanning the current siblings (no index); TLC explores all histories of create/add/remove/re-add, rename, identifier set/delete/pop and name deletion over colliding names under the DEFAULT, EDIF and a mixed policy, and checks uniqueness and exact refusal on the model. Every explored call is replayed on the real classes; after each call every naming scope is queried for every alphabet value under both keys and TLC compares the answers with the scan and the refusals with the rule.",
         "note": _IR_NOTE + " Names are atomic tokens over {a, A, b} with table-defined case folding; clone histories are covered by the C07 check."},
 "C19": {"category": "model_checking", "design_ref": "5 (C19), Appendix A",
         "technique": "TLC-explored call histories of spec/IR.tla replayed with a replay-only CallbackListener registered; TLC trace validation of C19_MirrorExact / C19_BeforeEffect / C19_Transparent",
         "text": "Every (state, call) pair TLC explores in the IR scopes is executed with a listener that only replays announcements; TLC compares the listener's mirror with the membership-level abstraction of the observed state after every call (a missing, phantom or wrong announcement makes them differ), checks the bit recorded inside each callback that the announced change was not yet visible, and checks that the outcome and state are identical under the listener configurations none / mirror / mirror+passive / passive+mirror.",
         "note": _IR_NOTE + " The mirror is order-insensitive (announcements carry no positions); an outer pin is identified by the pin object the announcement denotes. The model-side sufficiency of the announcement design (Listener.tla) is listed in DESIGN.md as future work."},
 "C11": {"category": "model_checking", "design_ref": "5 (C11), 4 (Hier, Gen)",
         "technique": "TLC enumerates designs as the reachable states of build scopes of spec/MC.tla (BFS + -simulate) and the queries to ask; the elaboration oracle of spec/Hier.tla (Paths/Occ/HName/Valid/Unique) evaluated by TLC judges the observed answers; random walks interleave edits, renames and queries on the same objects",
         "text": "The expected answer of every hierarchical query is defined once in TLA+ as the set of instance paths below the top instance and the ports/pins/cables/wires inside each (Hier.tla), independent of spydrnet's work-lists. TLC generates the designs (valid construction steps in canonical order, shared definitions at two depths, named/unnamed instances, destructive edits) and the (function, root, recursive) combinations; each is asked of the real code and TLC compares the returned references as a multiset with the oracle, checks names, validity, uniqueness (instance references) and flyweight identity, also for references held across edits.",
         "note": _IR_NOTE + " Exactly-once is demanded for netlist, library, definition, own-kind element, element-collection and reference roots; uniqueness only for references to instances (see DESIGN.md)."},
 "C12": {"category": "model_checking", "design_ref": "5 (C12), 4 (Hier)",
         "technique": "TLC-generated designs and start points; hierarchical nets defined in spec/Hier.tla as a fixpoint over port boundaries (Net), evaluated by TLC on the observed pre-state and compared with get_hwires/get_hpins answers",
         "text": "Net(x) is defined in TLA+ as the least set of hierarchical wires closed under 'joined through an instance port boundary'; TLC checks on the model that all members of a net have the same closure, enumerates the designs and every hierarchical wire, cable, pin and port of each as a start point, and judges the implementation's answers for selection ALL / INSIDE / OUTSIDE and get_hpins(wire) against that definition.",
         "note": _IR_NOTE},
 "C08": {"category": "model_checking", "design_ref": "5 (C08), 4 (Transform, Hier)",
         "technique": "TLA+ model of the uniquify work-list (spec/Transform.tla) checked by TLC against C08 predicates on every design of the transform scopes; the real uniquify judged by the same predicates (elaboration by index paths, Hier.tla) on observed (pre, post) pairs",
         "text": "Uniquify is modelled step by step (queue pop, uniqueness test, definition clone, insertion after the original, re-point) and TLC checks on the model, for every design of the scopes, that every non-leaf instance becomes the only reference of its definition while the elaborated instance tree, leaf types and the partition of leaf pins and top port bits into nets are unchanged, the result is well-formed, new definitions have fresh names in the original's library, and a second run is the identity. The same predicates are evaluated by TLC on the state observed before and after the real uniquify on each design.",
         "note": _IR_NOTE + " No strict state conformance for the transform itself (ids and names of new definitions are not compared), only the predicates."},
 "C09": {"category": "model_checking", "design_ref": "5 (C09), 4 (Transform, Hier)",
         "technique": "TLA+ model of flatten (bring-to-top, redo-connections, work-list) checked by TLC against C09 predicates; the real flatten judged by the same predicates on observed (uniquified pre, post) pairs, including an exhaustive port-boundary scope",
         "text": "Flatten is modelled as the code's work-list over the IR primitives; TLC checks OnlyLeaves, the leaf bijection (slash-joined names, leaf definition, data) and that two endpoints share a net afterwards iff they were in one hierarchical net before, on the model and on the implementation's observed states. The scope xf_port enumerates every way of tying an inner net to the bits of a bus port and a scalar port with the outer side connected, shared or absent.",
         "note": _IR_NOTE},
}
NOT_APPLICABLE = {}
