#!/bin/sh
# try_seed.sh <seed name> <tier> <pid>... : apply the seeded change to /repo, run the checks, undo it.
S=/verif/seeded/$1; TIER=$2; shift 2
cd /repo || exit 2
[ -z "$(git status --porcelain)" ] || { echo "/repo not clean"; exit 2; }
git apply "$S/patch.diff" >/dev/null 2>&1 || { echo "$(basename $S): patch does not apply"; git reset -q --hard HEAD; exit 2; }
git reset -q
trap 'git -C /repo checkout -q -- .' EXIT INT TERM
for P in "$@"; do
  OUT=$(cd /verif && bin/check $P --tier $TIER 2>/tmp/try_seed_err.$$); RC=$?
  echo "$(basename $S) vs $P ($TIER): rc=$RC $(echo "$OUT" | grep -c '^VIOLATION') violation line(s)"
  echo "$OUT" | grep -A1 '^VIOLATION' | head -6
  [ $RC -eq 2 ] && tail -5 /tmp/try_seed_err.$$
done
rm -f /tmp/try_seed_err.$$
git -C /repo checkout -q -- .
