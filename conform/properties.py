"""Per-property check handlers (called by check.py)."""
import json
import os
import shutil
import sys

HERE = os.path.dirname(os.path.abspath(__file__))
sys.path.insert(0, HERE)

import irflow  # noqa: E402
import tlcrun  # noqa: E402
from check import Result  # noqa: E402

# ------------------------------------------------------------------------------------------------
# call-history properties over the IR state machine (C01 C02 C14, later C10 C19)
#   runs: (module, scope, depth) per tier
IR_RUNS = {
    "C01": {"quick": [("MC", "conn", 2), ("MC", "contain", 3), ("MC", "body", 2), ("MC", "naming", 1), ("SUITE", "tests", 0)],
            "thorough": [("MC", "conn", 3), ("MC", "contain", 4), ("MC", "body", 3), ("MC", "mirror", 2), ("MC", "naming", 2), ("SUITE", "tests", 0)]},
    "C02": {"quick": [("MC", "mirror", 1), ("MC", "mirror_add", 2), ("MC", "conn", 2), ("MC", "clone_closed", 1), ("SUITE", "tests", 0)],
            "thorough": [("MC", "mirror", 2), ("MC", "mirror_add", 3), ("MC", "conn", 3), ("MC", "clone_closed", 2), ("SUITE", "tests", 0)]},
    "C14": {"quick": [("MC", "conn", 2), ("MC", "mirror", 1), ("MC", "mirror_add", 2), ("MC", "naming", 2),
                      ("MC", "naming_edif", 2), ("MC", "naming_two", 1), ("MC", "body", 2), ("MC", "naming_adopt", 2), ("MC", "naming_top", 1)],
            "thorough": [("MC", "conn", 3), ("MC", "mirror", 2), ("MC", "mirror_add", 3), ("MC", "body", 3), ("MC", "contain", 4),
                         ("MC", "naming", 3), ("MC", "naming_edif", 3), ("MC", "naming_mix", 3), ("MC", "naming_two", 2),
                         ("MC", "naming_adopt", 3), ("MC", "naming_adopt2", 3), ("MC", "naming_top", 2)]},
    "C19": {"quick": [("MC", "conn", 2), ("MC", "mirror", 1), ("MC", "mirror_add", 2), ("MC", "contain", 2),
                      ("MC", "naming", 1), ("MC", "body", 2), ("MC", "naming_top", 1)],
            "thorough": [("MC", "conn", 3), ("MC", "mirror", 2), ("MC", "mirror_add", 3), ("MC", "contain", 3),
                         ("MC", "body", 3), ("MC", "naming", 2), ("MC", "naming_edif", 2), ("MC", "naming_mix", 2), ("MC", "naming_top", 2)]},
    "C10": {"quick": [("MC", "naming", 2), ("MC", "naming_edif", 2), ("MC", "naming_mix", 2), ("MC", "naming_two", 1), ("MC", "naming_adopt", 2), ("MC", "naming_adopt2", 2), ("MC", "naming_long", 1)],
            "thorough": [("MC", "naming", 3), ("MC", "naming_edif", 3), ("MC", "naming_mix", 3), ("MC", "naming_two", 2), ("MC", "naming_adopt", 3), ("MC", "naming_adopt2", 3), ("MC", "naming_long", 2)]},
}
IR_LISTENERS = {"C19": "A"}
IR_RUNS.update({
    "C11": {"quick": [("MC", "hier_ghost", 1), ("MC", "hier_deep", 0), ("MC", "hier_twice", 0), ("MC", "hier_none", 0), ("MC", "hier11", 2), ("MC", "hier11", 10, 30), ("MC", "hier_edit", 1), ("MC", "hier_edit", 8, 20),
                      ("MC", "hier_walk", 12, 40)],
            "thorough": [("MC", "hier_ghost", 1), ("MC", "hier_deep", 0), ("MC", "hier_twice", 0), ("MC", "hier_none", 0), ("MC", "hier11", 4), ("MC", "hier11", 12, 600), ("MC", "hier_edit", 2),
                         ("MC", "hier_edit", 10, 400), ("MC", "hier_walk", 16, 1500)]},
    "C07": {"quick": [("MC", "clone", 2), ("MC", "clone_top", 1), ("MC", "clone_edit", 0)],
            "thorough": [("MC", "clone", 3), ("MC", "clone_top", 2), ("MC", "clone_edit", 1)]},
    "C06": {"quick": [("MC", "vlog_read", 2), ("MC", "vlog_read", 10, 14), ("MC", "vlog_decl", 0), ("MC", "vlog_assign", 1), ("MC", "vlog_alias", 2), ("MC", "vlog_shared", 0), ("FILES", "vlog_file", 6000)],
            "thorough": [("MC", "vlog_read", 3), ("MC", "vlog_read", 12, 300), ("MC", "vlog_decl", 0), ("MC", "vlog_assign", 3), ("MC", "vlog_alias", 4), ("MC", "vlog_shared", 0), ("FILES", "vlog_file", 30000)]},
    "C04": {"quick": [("MC", "vlog_rt", 2), ("MC", "vlog_rt", 10, 14), ("MC", "vlog_decl", 0), ("MC", "vlog_unused", 0), ("MC", "vlog_assign", 1), ("MC", "vlog_alias", 3), ("MC", "vlog_shared", 0), ("FILES", "vlog_rt", 6000)],
            "thorough": [("MC", "vlog_rt", 3), ("MC", "vlog_rt", 12, 300), ("MC", "vlog_decl", 0), ("MC", "vlog_unused", 0), ("MC", "vlog_assign", 3), ("MC", "vlog_alias", 4), ("MC", "vlog_shared", 0), ("FILES", "vlog_rt", 30000)]},
    "C15": {"quick": [("MC", "c15_edif", 0), ("MC", "c15_vlog", 0), ("MC", "c15_eblif", 0)],
            "thorough": [("MC", "c15_edif", 0), ("MC", "c15_vlog", 0), ("MC", "c15_eblif", 0)]},
    "C16": {"quick": [("MC", "c16_edif_arr", 0), ("MC", "c16_eblif_noname", 1), ("MC", "c16_eblif_nolib", 1), ("MC", "c16_edif", 2), ("MC", "c16_edif3", 2), ("MC", "c16_vlog", 1), ("MC", "c16_eblif", 2)],
            "thorough": [("MC", "c16_edif_arr", 0), ("MC", "c16_eblif_noname", 2), ("MC", "c16_eblif_nolib", 2), ("MC", "c16_edif", 3), ("MC", "c16_vlog", 2), ("MC", "c16_eblif", 3), ("MC", "c16_edif", 12, 300)]},
    "C18": {"quick": [("MC", "eblif_read", 3), ("MC", "eblif_rt", 2), ("MC", "eblif_latch", 2), ("MC", "eblif_latch_rt", 3), ("MC", "eblif_names", 2), ("MC", "eblif_inout", 1),
                      ("MC", "eblif_read", 10, 14), ("FILES", "eblif_file", 9000), ("FILES", "eblif_rt", 9000)],
            "thorough": [("MC", "eblif_read", 4), ("MC", "eblif_rt", 3), ("MC", "eblif_latch", 4), ("MC", "eblif_latch_rt", 4), ("MC", "eblif_names", 3), ("MC", "eblif_inout", 2),
                         ("MC", "eblif_read", 12, 300), ("FILES", "eblif_file", 9000), ("FILES", "eblif_rt", 9000)]},
    "C17": {"quick": [("MC", "edif_names", 0), ("MC", "edif_reexport", 0), ("MC", "edif_rt_memo", 0), ("MC", "edif_rt_case", 0)],
            "thorough": [("MC", "edif_names", 0), ("MC", "edif_reexport", 0), ("MC", "edif_rt_memo", 0), ("MC", "edif_rt_case", 0), ("MC", "edif_rt_br", 2)]},
    "C05": {"quick": [("MC", "edif_read", 2), ("MC", "edif_read1", 1), ("MC", "edif_read", 10, 8), ("MC", "edif_read_br", 1), ("MC", "edif_read2", 1), ("MC", "edif_read_case", 0), ("FILES", "edif_file", 12000)],
            "thorough": [("MC", "edif_read", 3), ("MC", "edif_read1", 3), ("MC", "edif_read", 12, 200), ("MC", "edif_read_br", 2), ("MC", "edif_read_case", 0), ("FILES", "edif_file", 40000)]},
    "C03": {"quick": [("MC", "edif_rt", 3), ("MC", "edif_rt2", 2), ("MC", "edif_rt", 10, 40), ("MC", "edif_rt_br", 1), ("MC", "edif_rt_case", 0), ("MC", "edif_rt_memo", 0), ("MC", "edif_reexport", 0), ("FILES", "edif_rt", 4000)],
            "thorough": [("MC", "edif_rt", 4), ("MC", "edif_rt1", 4), ("MC", "edif_rt", 12, 400), ("MC", "edif_rt_br", 2), ("MC", "edif_rt_case", 0), ("MC", "edif_reexport", 0), ("FILES", "edif_rt", 40000)]},
    "C20": {"quick": [("MC", "compare", 0), ("MC", "compare_assign", 0)], "thorough": [("MC", "compare", 0), ("MC", "compare_assign", 0)]},
    "C13": {"quick": [("MC", "query", 1), ("MC", "query_edif", 0), ("MC", "query_edif_ref", 0), ("MC", "query_nons", 0)],
            "thorough": [("MC", "query", 30), ("MC", "query_edif", 0), ("MC", "query_edif_ref", 0), ("MC", "query_nons", 0)]},
    "C08": {"quick": [("MC", "xf", 3), ("MC", "xf_port", 4), ("MC", "xf", 12, 40), ("MC", "xf_late", 12, 40), ("MC", "xf_port2", 12, 40), ("MC", "xf4", 2), ("MC", "xf_noport", 2), ("MC", "xf_unnamed", 1)],
            "thorough": [("MC", "xf", 5), ("MC", "xf_port", 11), ("MC", "xf", 14, 1500), ("MC", "xf_late_port", 4), ("MC", "xf_late", 14, 600), ("MC", "xf_port2", 14, 600), ("MC", "xf4", 4), ("MC", "xf_noport", 4), ("MC", "xf_unnamed", 3)]},
    "C09": {"quick": [("MC", "xf", 2), ("MC", "xf_port", 6), ("MC", "xf", 12, 30), ("MC", "xf_noport", 2), ("MC", "xf_edif", 0)],
            "thorough": [("MC", "xf", 5), ("MC", "xf_port", 11), ("MC", "xf", 14, 1500), ("MC", "xf_late", 14, 600), ("MC", "xf_noport", 4), ("MC", "xf_edif", 0)]},
    "C12": {"quick": [("MC", "hier12", 3), ("MC", "hier12", 12, 60), ("MC", "hier12_pos", 12, 60), ("MC", "hier12_ft", 3), ("MC", "hier12_pt", 3), ("MC", "hier12_topm", 1), ("MC", "hier_deep", 0), ("MC", "hier12_walk", 10, 30)],
            "thorough": [("MC", "hier12", 5), ("MC", "hier12", 14, 1000), ("MC", "hier12_pos", 4), ("MC", "hier12_pos", 14, 1000), ("MC", "hier12_ft", 5), ("MC", "hier12_pt", 5), ("MC", "hier12_topm", 3), ("MC", "hier_deep", 0), ("MC", "hier12_walk", 14, 400)]},
})
IR_RULE = {
    "C15": "for one design per format the valid rendering and EVERY single corruption of it (truncation before each token, "
           "deletion, duplication and replacement of each token, for EDIF every cell/library/port/instance/view reference "
           "redirected to an undeclared name) is handed to sdn.parse under a watchdog; observed: outcome, naming policy "
           "before/after, well-formedness of a returned netlist, and a probe script (create, set case-colliding identifiers, "
           "parse a good file) compared with its behaviour in a fresh state; distinct_nontrivial counts distinct corrupted "
           "texts that differ from the valid one",
    "C16": "every design of the EDIF scope is composed twice to EDIF; every design of the Verilog scope is read by the real "
           "reader and composed twice to Verilog under all 8 combinations of write_blackbox / defparam / definition_list (and "
           "once to EBLIF and to EDIF); every design of the EBLIF scope is read and composed twice to EBLIF under all 4 "
           "combinations of write_blackbox / write_eblif_cname; read-only queries run between the two writes; the full "
           "projected state including user data outside the modelled keys is compared before and after; "
           "distinct_nontrivial counts distinct (design, format, options) triples",
    "C18": "abstract flat designs = reachable states of a build scope following spydrnet's EBLIF conventions (top model with a "
           "bus input, primitives LEAF and AND2 with a 2-bit port, up to three instances of type .subckt/.gate with .cname, "
           ".attr and .param, a .latch, two .names (a two-input gate with zero, one or two cover lines and a constant driver; "
           "named after the driven net or by .cname), every way of tying pins to scalar and bus-indexed nets, unconnected "
           "pins); rendered by the "
           "independent writer conform/eblif_text.py under a seeded sample of the options (comments, line continuations, "
           "statement order, primitives declared or not, unconn actuals, a .conn alias placed before or after its uses), "
           "parsed by the real reader; the parse results are also written by the real writer and read back; "
           "distinct_nontrivial counts distinct (design, options) pairs",
    "C06": "abstract designs = reachable states of a build scope that follows spydrnet's Verilog conventions (leaf / mid with "
           "a 2-bit port / top with a 2-bit port, 2- and 3-bit wires; instances with every way of tying their pins to wire "
           "bits); each is rendered by the independent writer conform/verilog_text.py under a seeded sample of 12 of the 128 "
           "option combinations (module order, ANSI headers, positional maps, forced concatenations, escaped identifiers, "
           "comments, `celldefine, grouped declarations, escaped module names, never-declared primitives, part-selects inside "
           "concatenations) and parsed by the real reader; further scopes add assign statements, declaration styles and "
           "header-aliased ports whose members are scalar nets (.a({\\j[0] , k})); distinct_nontrivial counts distinct "
           "(design, options) pairs inside the domain (single root module)",
    "C04": "the netlists the real Verilog reader produced for the C06 inputs - and for header-aliased ports of every shape "
           "(bits of a vector net, scalar nets, a whole net, one net twice) - are written by the real writer and read "
           "again, plain and after uniquify + flatten; distinct_nontrivial counts distinct (design, options) pairs",
    "C17": "two siblings of every naming scope (libraries, cells, ports, nets, instances) receive every ordered pair of "
           "distinct names from an adversarial pool (case variants, -, _, brackets, slashes, backslash, space, $, &, leading "
           "digit, existing _sdn_N_ suffixes, lengths 254/255/256/257/300 with collisions after truncation); the netlist is "
           "exported by the real writer and re-imported by the real reader; distinct_nontrivial counts distinct (scope, "
           "name pair) cases",
    "C05": "abstract designs = reachable states of the fully named build scope (three libraries with cross-library "
           "references, bus port, bus nets with base indices, properties, any declaration order); each is rendered by the "
           "independent writer conform/edif_text.py under all 48 combinations of render options (rename constructs, "
           "upper-case references, ascending/descending/mixed bit order, comments, omitted interior empty bits) and parsed "
           "by the real reader; distinct_nontrivial counts distinct (design, options) pairs",
    "C03": "the same design space written by the real EDIF writer, read back by the independent reader "
           "(C03_FileSaysDesign) and by the real reader (C03_ReaderAccepts, C03_RoundTrip); distinct_nontrivial counts "
           "distinct designs inside the property's domain",
    "C20": "a named two-library design (bus port, directions, properties, cross-library references) is built twice; "
           "Comparer is run on the pair as built, on (netlist, clone), and after every single structural mutation of one of "
           "them (drop / add one library, definition, port, cable, instance, pin, wire; change a direction, array-ness; "
           "re-point an instance; change a property; rename; disconnect; move one connection to any other free pin), in both "
           "argument orders; distinct_nontrivial counts distinct mutated pairs",
    "C13": "on a fixed design with colliding names (case variants, prefixes, unnamed elements, a user key, identifiers) TLC "
           "draws a seeded random subset of the query product (13 functions x root kinds x selection x recursive x key x 1-2 "
           "patterns derived from the values present x is_case x is_re x filter); each is run together with the unfiltered "
           "query, the reversed pattern order and the fast lookup deregistered; distinct_nontrivial counts distinct queries "
           "that were accepted",
    "C07": "designs = reachable states of the build scope clone (three libraries with cross-library references, named and "
           "unnamed instances, top instance stand-alone); on each, clone() with EVERY element of every kind as the root "
           "(strict conformance to the TLA+ clone model including ids); scope clone_edit: a netlist and its clone side "
           "by side, every IR edit and uniquify / uniquify+flatten on either; distinct_nontrivial counts distinct "
           "(design, clone root) pairs plus distinct (state, edit) pairs of the side-by-side scope",
    "C08": "designs = reachable states of the build scope xf (two libraries, leaf / feed-through-capable mid / top with a "
           "bus port; sharing at two depths; BFS + TLC -simulate); on each the pipeline uniquify; uniquify; flatten is run on "
           "the real code; distinct_nontrivial counts distinct designs in which some non-leaf definition is shared",
    "C09": "as C08; flatten is judged on the uniquified design; distinct_nontrivial counts distinct designs with at least "
           "one hierarchical (non-leaf) instance below the top",
    "C11": "designs = reachable states of the build scope hier11 (valid construction steps in canonical order; BFS to the "
           "listed depth plus TLC -simulate behaviours for deep designs) and of hier_edit (the same plus destructive "
           "edits); per design every hierarchical query (5 functions x netlist / element / reference roots x recursive) "
           "and a validity/uniqueness check of all plausible reference chains; distinct_nontrivial counts distinct "
           "(design, query) pairs",
    "C12": "designs = reachable states of the build scope hier12; per design every hierarchical wire, cable, pin and "
           "port is a start point for selection ALL, every pin for INSIDE/OUTSIDE, every wire for get_hpins; "
           "distinct_nontrivial counts distinct (design, start point, selection) triples",
    "C19": "every (reachable model state, candidate call) pair executed with a MirrorListener registered (a "
           "CallbackListener that only replays announcements); every 4th state additionally under the listener "
           "configurations none / mirror+passive / passive+mirror; distinct_nontrivial counts distinct (pre-state, "
           "call) pairs that produced at least one announcement or were refused",
    "C10": "every (reachable model state of the naming scopes, candidate call) pair, under the DEFAULT, the EDIF and a "
           "mixed policy configuration; after every call every naming scope is asked for every alphabet value under "
           "both keys; distinct_nontrivial counts distinct (pre-state, call) pairs",
    "C01": "every (reachable model state within the scope's depth, candidate call) pair is executed on "
           "the real classes; distinct_nontrivial counts distinct (pre-state, call) pairs whose call "
           "changed the state or was refused",
    "C02": "as C01 in the scopes that edit instanced definitions; distinct_nontrivial counts distinct "
           "(pre-state, call) pairs that changed an instance's outer pins or a reference set",
    "C14": "every (reachable model state, candidate call) pair; distinct_nontrivial counts distinct "
           "(pre-state, call) pairs that the implementation REFUSED (each is one fault-injection case)",
}


def _sig_of(rec, header):
    c = rec.get("call") or (header["h"][-1] if header and header.get("h") else {})
    sig = {"op": c.get("op"), "out": rec.get("out", "state")}
    for k in ("rel", "kind", "key"):
        if k in c:
            sig[k] = c[k]
    if isinstance(c.get("pin"), dict):
        sig["pin_kind"] = c["pin"].get("k")
    return sig


_LIST = {"L": "nlLibs", "D": "libDefs", "P": "defPorts", "C": "defCables", "I": "defKids"}
_DATA = {"N": "nlData", "L": "libData", "D": "defData", "P": "portData", "C": "cabData", "I": "instData"}
_FOLD = str.lower


def _lookup_classes(st):
    """classify the disagreeing entries of a logged lookup table (for finding signatures only -
    the verdict itself is TLC's evaluation of C10_LookupAgrees)"""
    classes = set()
    for e in st.get("lookup", []):
        sibs = st[_LIST[e["ck"]]][e["p"] - 1]
        pol = st[_DATA[e["pk"]]][e["p"] - 1]["ns"]
        fold = e["key"] == "eid" and pol == "EDIF"
        exp = [y for y in sibs if st[_DATA[e["ck"]]][y - 1][e["key"]] != "" and
               (_FOLD(st[_DATA[e["ck"]]][y - 1][e["key"]]) == _FOLD(e["val"]) if fold
                else st[_DATA[e["ck"]]][y - 1][e["key"]] == e["val"])]
        res = e["res"]
        if sorted(res) == sorted(exp) and len(set(res)) == len(res):
            continue
        if res and set(res) < set(exp) and len(res) == 1 and not fold and e["key"] == "eid":
            classes.add("one-of-several-equal-identifiers-under-DEFAULT")
        elif set(res) - set(exp):
            classes.add("ghost:" + e["key"])
        elif len(set(res)) != len(res):
            classes.add("duplicate:" + e["key"])
        else:
            classes.add("missing:" + e["key"])
    return sorted(classes)


def _diff_fields(a, b):
    if not isinstance(a, dict) or not isinstance(b, dict):
        return []
    return sorted(k for k in set(a) | set(b) if a.get(k) != b.get(k))


def _c13_detail(sig, rec):
    c = rec["call"]
    hier = c["fn"].startswith("h")
    sig.update({"fn_family": "hier" if hier else "flat", "root_kind": c["root"][0],
                "mode": ("re" if c["isRe"] else "glob") + ("" if c["isCase"] else "+nocase")})
    S = lambda x: set(json.dumps(y) for y in x)  # noqa: E731
    def eid(e):
        return e[-1][1] if hier else e[1]
    ret = S(rec.get("ret", []))
    unf = S(e for e in rec.get("unf", []) if c["filt"] == "none" or eid(e) % 2 == 1)
    sig["ret_vs_unfiltered"] = "all-of-unfiltered" if ret == unf else ("subset" if ret <= unf else "not-a-subset")
    if len(rec.get("ret", [])) != len(ret):
        sig["duplicates"] = True
    return sig


def _detail(sig, clause, rec, header):
    if clause.startswith("C06") or clause.startswith("C04") or clause.startswith("C18"):
        o = rec.get("call", {}).get("opts") or next((c.get("opts") for c in reversed(header.get("h_all", [])) if c.get("opts")), {})
        sig["opts_on"] = sorted(k for k, v in (o or {}).items() if v is True or v == "reversed")
        sig["exception"] = rec.get("exc", "")
        return sig
    if clause.startswith("C17"):
        hist = header.get("h_all", [])
        names = [c.get("val", "") for c in hist if c.get("op") == "set_name"][-2:]
        kind = next((c.get("kind") for c in reversed(hist) if c.get("op") == "set_name"), "")
        sig["kind"] = kind
        cause = "other"
        if kind == "C":
            longs = [n for n in names if n.startswith("@") and int(n[1:].split(":")[0]) >= 253]
            if not rec.get("reader_accepts", True) and longs:
                cause = "long-bus-cable-name: identifier plus _<bit>_ suffix exceeds the EDIF length limit"
            elif rec.get("reader_accepts", True) and any(
                    not ({"@": "a", "#": "1"}.get(n[:1], n[:1]) or "a").isalnum() for n in names):
                # a first character that is neither letter nor digit is written as "_": the identifier starts "&_"
                cause = "bus cable whose identifier is &-escaped comes back as single-bit cables"
            elif rec.get("reader_accepts", True) and any(n.endswith("]") and "[" in n for n in names):
                cause = "scalar cable named like a bus bit comes back as a bit of an array cable"
        sig["cause"] = cause
        return sig
    if clause.startswith("C15"):
        c = rec.get("call", {})
        sig.update({"fmt": c.get("fmt"), "kind": c.get("kind"), "parse": rec.get("parse"), "raised": rec.get("raised", "")})
        return sig
    if clause.startswith("C20"):
        sig["raised"] = rec.get("raised", "")
        sig["copy_made_by"] = "clone" if any(c.get("op") == "clone" for c in header.get("h_all", [])) else "second build"
        return sig
    if clause.startswith("C13") and rec.get("call", {}).get("op") == "q":
        return _c13_detail(sig, rec)
    st = rec.get("state") if rec.get("state") else header.get("state")
    if clause in ("C10_LookupAgrees", "C07_SameAnswers") and st:
        sig["lookup_classes"] = _lookup_classes(st)
    if clause == "C14_RefusedUnchanged" and rec.get("state"):
        sig["changed_fields"] = _diff_fields(header["state"], rec["state"])
    return sig


FILE_OPS = {"edif_rt": ("edif", lambda nm: ([{"op": "load_example", "fmt": "edif", "name": nm}], [{"op": "edif_rt", "n": 1}])),
            "edif_file": ("edif", lambda nm: ([], [{"op": "edif_file_read", "name": nm}])),
            "vlog_file": ("vlog", lambda nm: ([], [{"op": "file_read", "fmt": "vlog", "name": nm}])),
            "eblif_file": ("eblif", lambda nm: ([], [{"op": "file_read", "fmt": "eblif", "name": nm}])),
            "vlog_rt": ("vlog", lambda nm: ([{"op": "load_example", "fmt": "vlog", "name": nm}], [{"op": "vlog_rt", "n": 1}])),
            "eblif_rt": ("eblif", lambda nm: ([{"op": "load_example", "fmt": "eblif", "name": nm}], [{"op": "eblif_rt", "n": 1}]))}


def files_groups(what, maxbytes):
    """the bundled example files (zip size up to maxbytes) as (history, candidate calls) groups"""
    import harness
    fmt, mk = FILE_OPS[what]
    d, ext = harness.EXAMPLE_DIRS[fmt]
    out = []
    for nm in harness.example_names(fmt):
        if os.path.getsize(harness.example_path(fmt, nm)) <= maxbytes:
            out.append(mk(nm))
    return out


def ir_history(pid, tier, seed, replay=None, runs=None, strict=True):
    res = Result(pid, tier, seed, "model_checking" if pid != "C14" else "fault_enumeration")
    runs = runs or IR_RUNS[pid][tier if tier in IR_RUNS[pid] else "quick"]
    cov = {"states": 0, "transitions": 0, "traces_validated_against_impl": 0, "samples": [],
           "scopes": [], "evaluations": 0, "distinct_nontrivial": 0, "rule": IR_RULE.get(pid, ""),
           "drift_transitions": 0, "exhaustive": True}
    out = tlcrun.scratch("check-%s-" % pid)
    try:
        if replay is not None:
            rp = replay["replay"]
            if rp.get("module") == "SUITE":
                jobs = [("SUITE", "tests", 0, None, None, [rp["test"]])]
            elif rp.get("chain"):
                jobs = [(rp.get("module", "MC"), rp.get("scope", "replay"), 0, {"walk": True, "walkq": True,
                         "distinct": 0, "states": 0, "lookup": rp.get("lookup", [])}, rp["init"],
                         [(rp["hist"] + ([rp["call"]] if rp.get("call") else []), [])])]
            else:
                jobs = [(rp.get("module", "MC"), rp.get("scope", "replay"), 0,
                         None, rp["init"], [(rp["hist"], [rp["call"]] if rp.get("call") else [])])]
        else:
            jobs = []
            for run in runs:
                module, scope, depth = run[:3]
                if module == "SUITE":
                    jobs.append(("SUITE", scope, 0, None, None, None))
                    continue
                if module == "FILES":
                    groups = files_groups(scope, depth)
                    cov["exhaustive"] = False
                    jobs.append(("FILES", scope, depth, {"distinct": len(groups), "states": len(groups), "lookup": []}, [], groups))
                    continue
                sim = run[3] if len(run) > 3 else None
                gen, init, groups = irflow.generate(scope, depth, module=module, sim=sim, seed=seed)
                if sim:
                    cov["exhaustive"] = False
                    scope = scope + "~sim"
                if not gen["ok"]:
                    res.machinery.append("TLC model checking of scope %s failed: %s" % (scope, gen["errors"][:8]))
                    if any("MODEL-VIOLATION" in e or "Invariant" in e for e in gen["errors"]):
                        res.notes.append("the MODEL violates a property in scope %s (spec bug)" % scope)
                    continue
                jobs.append((module, scope, depth, gen, init, groups))
        for module, scope, depth, gen, init, groups in jobs:
            d = os.path.join(out, scope + str(depth))
            scope = scope.replace("~sim", "")
            if module == "SUITE":
                # the repository's own tests, recorded through the guarded hook (conform/suiteflow.py)
                import suiteflow
                rec_path, summary = suiteflow.record(d, select=groups)
                shards, tot = suiteflow.shard(rec_path, d)
                os.remove(rec_path)
                stats = []
                cov["exhaustive"] = False
                cov.setdefault("suite", {})["pytest_summary"] = summary
                if not shards:
                    res.machinery.append("recording the repository's tests produced no trace: %s" % summary)
                    continue
            else:
                shards, stats = irflow.replay(init, groups, d, lookup=(gen or {}).get("lookup", rp.get("lookup", []) if replay else []),
                                              listeners=IR_LISTENERS.get(pid, ""),
                                              chain=("observe" if gen and gen.get("walkq") else bool(gen and gen.get("walk"))))
            if module != "SUITE":
                tot = {k: sum(s[k] for s in stats) for k in
                       ("groups", "calls", "ok", "refused", "changed_refused", "unbuildable", "records",
                        "nontrivial_refused", "announcements", "transparency_compared")}
            for s in stats:
                res.machinery.extend(s["harness_errors"][:3])
            val = irflow.validate(shards, strict=strict,
                                  module="Trace" if module in ("MC", "SUITE", "FILES") else module.replace("MC", "Trace"))
            nd = 0
            for v in val:
                if v["errors"] or not v["complete"]:
                    res.machinery.append("TLC trace validation failed on %s: %s" %
                                         (os.path.basename(v["path"]), (v["errors"] or v["tail"][-5:])[:6]))
                for k, clause in v["fails"]:
                    if not clause.startswith(pid):
                        continue
                    header, hist, rec = irflow.history_of(v["path"], k)
                    prerec = rec if rec["t"] == "reset" else irflow.read_record(v["path"], rec["pre"])
                    prerec = dict(prerec, h_all=hist)
                    sig = _detail(_sig_of(rec, {"h": hist}), clause, rec, prerec)
                    res.violations.append({
                        "clause": clause, "signature": sig,
                        "summary": "after %d calls: %s -> %s" % (len(hist), json.dumps(rec.get("call"))[:300],
                                                                  rec.get("out")),
                        "replay": {"module": module, "scope": scope, "init": init, "test": header.get("seg", ""), "lookup": (gen or {}).get("lookup", []),
                                   "hist": hist, "chain": bool(gen and gen.get("walk")) or bool(replay and rp.get("chain")),
                                   "call": rec.get("call"), "observed_out": rec.get("out"),
                                   "exception": rec.get("exc"), "pre": prerec.get("state", "see history"),
                                   "post": rec.get("state", "same as pre"),
                                   "announcements": rec.get("ann"), "mirror": rec.get("mirror"),
                                   "returned": rec.get("ret"), "info": rec.get("info")}})
                for k, what in v["drifts"]:
                    nd += 1
                    if len(res.drift) < 10:
                        rec = irflow.read_record(v["path"], k)
                        res.drift.append("scope %s: %s differs from the model for %s (impl: %s)" %
                                         (scope, what, json.dumps(rec.get("call"))[:300], rec.get("out")))
            cov["drift_transitions"] += nd
            cov["traces_validated_against_impl"] += tot["records"]
            cov["evaluations"] += tot["calls"]
            if pid == "C14":
                cov["distinct_nontrivial"] += tot["nontrivial_refused"]
            elif pid == "C15":
                cov["distinct_nontrivial"] += max(0, tot["calls"] - 1)
            else:
                cov["distinct_nontrivial"] += tot["ok"] + tot["refused"]
            if gen:
                cov["states"] += gen["distinct"]
                cov["transitions"] += gen["states"]
            cov["scopes"].append({"module": module, "scope": scope, "depth": depth,
                                  "model_distinct_states": gen["distinct"] if gen else 0,
                                  "model_transitions": gen["states"] if gen else 0,
                                  "impl": tot, "drift": nd})
            if module == "SUITE":
                cov["suite"].update({k: tot[k] for k in ("segments", "segments_cut", "segments_excluded", "resets_unobserved",
                                                         "calls_in_vocabulary")})
            elif groups and len(cov["samples"]) < 4:
                g = groups[len(groups) // 2]
                cov["samples"].append({"scope": scope, "history": g[0], "candidate_calls_tried_there": len(g[1]),
                                       "first_candidates": g[1][:3]})
    finally:
        shutil.rmtree(out, ignore_errors=True)
    res.coverage = cov
    res.assumptions = [
        "the projection conform/harness.py:project reads the implementation state faithfully through the public read API",
        "bounded scopes: universes and depths as listed under coverage.scopes; beyond them nothing is claimed",
        "PYTHONHASHSEED=0; set-iteration order inside bulk removals is not varied"]
    return res


def c15_check(pid, tier, seed, replay=None):
    """C15: the process-wide session model (ParseSession.tla) is model-checked by TLC (safety and liveness, and the
    variant without restore-on-failure must be refuted), then every single corruption is injected into the real readers"""
    import tlcrun
    res = ir_history(pid, tier, seed, replay=replay)
    if replay is None:
        cfg = ("SPECIFICATION Spec\nCONSTANTS MaxSteps = 4 RestoreOnFailure = %s\n%s"
               "INVARIANT C15_FreshBehaviour\nINVARIANT C15_PolicyWhenIdle\n")
        good = tlcrun.run("ParseSession", cfg % ("TRUE", "PROPERTY C15_PolicyRestored\nPROPERTY C15_Terminates\n"), workers=1)
        bad = tlcrun.run("ParseSession", cfg % ("FALSE", ""), workers=1)
        res.coverage["session_model"] = {"states": good["distinct"], "transitions": good["states"], "holds": good["ok"],
                                         "variant_without_restore_refuted": (not bad["ok"]) and
                                         any("C15_" in e for e in bad["errors"])}
        res.coverage["states"] += good["distinct"]
        res.coverage["transitions"] += good["states"]
        if not good["ok"]:
            res.machinery.append("ParseSession.tla does not satisfy its properties: %s" % good["errors"][:4])
        if bad["ok"]:
            res.machinery.append("ParseSession.tla without restore-on-failure was not refuted (vacuity)")
        # unbounded in the number of parser steps: an inductive invariant discharged by Apalache
        res.coverage["session_model_unbounded"] = _apalache_session()
        if res.coverage["session_model_unbounded"].get("status") == "failed":
            res.machinery.append("Apalache: the inductive invariant of ApaParseSession.tla was not established: %s"
                                 % res.coverage["session_model_unbounded"])
    res.level = "fault_enumeration"
    return res


def _apalache_session():
    """IndInv of spec/apalache/ApaParseSession.tla is inductive (any number of parser steps), implies the safety properties, and
    is refuted when the failure path may skip the restore"""
    import subprocess
    import shutil as _sh
    if _sh.which("apalache-mc") is None:
        return {"status": "skipped", "why": "apalache-mc not on PATH"}
    out = tlcrun.scratch("apa-")
    runs = [("step", "CInit", "IndInit", "IndInv", 1, True), ("base", "CInit", "Init", "IndInv", 0, True),
            ("implies_safety", "CInit", "IndInit", "Safety", 0, True), ("without_restore", "CInitAny", "IndInit", "IndInv", 1, False)]
    got = {}
    try:
        for name, cinit, init, inv, length, want_ok in runs:
            try:
                p = subprocess.run(["apalache-mc", "check", "--cinit=" + cinit, "--init=" + init, "--inv=" + inv,
                                    "--length=%d" % length, "--out-dir=" + os.path.join(out, name),
                                    os.path.join(tlcrun.SPEC, "apalache", "ApaParseSession.tla")],
                                   capture_output=True, text=True, timeout=600, cwd=out)
                ok = "EXITCODE: OK" in p.stdout
                got[name] = "holds" if ok else ("refuted" if "EXITCODE: ERROR (12)" in p.stdout else "error")
                if (got[name] == "holds") != want_ok or got[name] == "error":
                    got["status"] = "failed"
            except Exception as e:
                got[name] = "error: %s" % type(e).__name__
                got["status"] = "failed"
    finally:
        shutil.rmtree(out, ignore_errors=True)
    got.setdefault("status", "inductive invariant established for every MaxSteps in Nat; refuted without restore-on-failure")
    return got


HANDLERS = {"C01": ir_history, "C02": ir_history, "C14": ir_history, "C10": ir_history, "C19": ir_history, "C11": ir_history,
            "C12": ir_history, "C08": ir_history, "C09": ir_history, "C07": ir_history, "C13": ir_history, "C20": ir_history, "C05": ir_history, "C03": ir_history, "C17": ir_history, "C06": ir_history, "C04": ir_history, "C18": ir_history, "C16": ir_history, "C15": c15_check}
