"""generate (TLC) -> replay (real code) -> validate (TLC) for the IR call-history scopes."""
import json
import multiprocessing as mp
import os
import shutil
import sys
import time

sys.path.insert(0, os.path.dirname(os.path.abspath(__file__)))
import tlcrun  # noqa: E402

NPROC = int(os.environ.get("VERIF_NPROC", "16"))

MC_INVARIANTS = ["Inv_C01_ParentChild", "Inv_C01_PinWire", "Inv_C02_RefSets", "Inv_C02_OuterPins",
                 "Inv_C02_Dropped", "Inv_C10_Unique", "Inv_C10_LegalIds", "Inv_OracleSane", "Inv_C08_Model", "Inv_C09_Model", "Inv_C07_Model", "Inv_CloneDefAgrees", "Inv_C20_Model"]


def mc_cfg(scope, depth, emit, module_consts=""):
    return ("SPECIFICATION Spec\nCONSTANTS ScopeName = \"%s\" MaxDepth = %d Emit = %s\n%s"
            "VIEW View\nCONSTRAINT DepthBound\n%sINVARIANT EmitState\nCHECK_DEADLOCK FALSE\n"
            % (scope, depth, "TRUE" if emit else "FALSE", module_consts,
               "".join("INVARIANT %s\n" % i for i in MC_INVARIANTS)))


def generate(scope, depth, module="MC", timeout=3600, sim=None, seed=0):
    """model-check the scope (or, with sim=N, let TLC simulate N random behaviours of length depth);
    returns (tlc result, init calls, groups=[(hist, cands)]) with one group per distinct history"""
    groups = []
    seen = set()
    walkflag = []
    init = []
    lookup = []

    def on_line(line):
        if line.startswith('<<"ST", '):
            rec = tlcrun.parse_print(line, "ST")
            key = json.dumps(rec["h"], sort_keys=True)
            if key not in seen:
                seen.add(key)
                groups.append((rec["h"], rec["c"]))
                if rec.get("walk"):
                    walkflag.append(bool(rec.get("wq")))
        elif line.startswith('<<"INIT", '):
            rec = tlcrun.parse_print(line, "INIT")
            init[:] = rec["init"]
            lookup[:] = sorted(rec.get("lookup", []))

    if sim:
        res = tlcrun.run(module, mc_cfg(scope, depth, True), workers=1, heap="4g", on_line=on_line,
                         timeout=timeout, simulate="num=%d" % sim,
                         extra=["-depth", str(depth + 1), "-seed", str(seed + 1)])
        res["ok"] = not res["errors"]
        res["distinct"] = len(groups)
        res["states"] = max(res["states"], len(groups))
    else:
        res = tlcrun.run(module, mc_cfg(scope, depth, True), workers=NPROC, heap="8g", on_line=on_line,
                         timeout=timeout)
    if sim and not walkflag and len(groups) > max(150, sim * 12):
        # the simulator evaluates the emitting invariant on every candidate successor: keep a bounded,
        # seeded sample that favours the deep designs (the shallow ones are covered exhaustively by BFS)
        rnd = __import__("random").Random(seed)
        groups.sort(key=lambda g: (-len(g[0]), json.dumps(g[0], sort_keys=True)))
        deep = groups[:len(groups) // 2]
        rnd.shuffle(deep)
        groups = deep[:max(150, sim * 12)]
    res["lookup"] = list(lookup)
    res["walk"] = bool(walkflag)
    res["walkq"] = any(walkflag)
    if walkflag:      # behaviours: keep the maximal histories only
        keys = sorted((json.dumps(g[0], sort_keys=True)[:-1], g) for g in groups)
        maximal = []
        for i, (k, g) in enumerate(keys):
            if g[0] and not (i + 1 < len(keys) and keys[i + 1][0].startswith(k + ",")):
                maximal.append(g)
        # the simulator evaluates the emitting invariant on every candidate successor, so there are many
        # maximal histories per simulated behaviour: keep the longest ones, a bounded deterministic sample
        longest = max((len(g[0]) for g in maximal), default=0)
        full = [g for g in maximal if len(g[0]) >= longest - 1]
        rnd = __import__("random").Random(seed)
        rnd.shuffle(full)
        groups = full[:max(1, (sim or 50) * 4)]
    return res, list(init), groups


def _call_key(c):
    return json.dumps(c, sort_keys=True)


TIMEOUTS = [0]     # calls that hit the per-call watchdog in this worker


def _run_group(harness, init, hist, cands, listeners):
    """execute every candidate call from the state reached by init+hist; returns the reset record
    and the call records (pre index filled in by the caller) or raises HarnessError"""
    reg = harness.build(init + hist, listeners)
    s0 = harness.project(reg)
    m0 = harness.project_mirror(reg) if reg.mirror else None
    head = {"t": "reset", "h": hist, "state": s0}
    if m0 is not None:
        head["mirror"] = m0
    recs = []
    errors = []
    timeouts = 0
    ordered = sorted(cands, key=_call_key)
    for ci, c in enumerate(ordered):
        if timeouts >= 2 or TIMEOUTS[0] >= 4:      # do not spend the whole budget waiting for a hanging call
            TIMEOUTS[0] += timeouts
            timeouts = 0
            break
        if c["op"] == "seq":      # a pipeline of calls on the same objects: a little chain inside the star
            prev = 0
            s_prev = s0
            for sub in c["calls"]:
                try:
                    out, exc = harness.execute(reg, sub)
                except harness.HarnessError:
                    break
                harness.adopt(reg)
                s1 = harness.project(reg)
                rec = {"t": "call", "call": sub, "out": out, "exc": exc, "same": s1 == s_prev, "state": s1}
                if reg.last_ret is not None:
                    rec["ret"] = reg.last_ret
                if getattr(reg, "last_extra", None):
                    rec.update(reg.last_extra)
                if prev:
                    rec["pre_rel"] = prev
                recs.append(rec)
                prev = len(recs)
                s_prev = s1
            reg = harness.build(init + hist, listeners)
            continue
        if reg.mirror:
            reg.mirror.begin_call()
        try:
            out, exc = harness.execute(reg, c)
        except harness.HarnessError:
            recs.append(None)
            continue
        if out == "timeout":
            timeouts += 1
        s1 = harness.project(reg)
        same = (s1 == s0)
        rec = {"t": "call", "call": c, "out": out, "exc": exc, "same": same}
        if not same:
            rec["state"] = s1
        if reg.last_ret is not None:
            rec["ret"] = reg.last_ret
            rec["info"] = reg.last_info
        if getattr(reg, "last_extra", None):
            rec.update(reg.last_extra)
        msame = True
        if reg.mirror:
            m1 = harness.project_mirror(reg)
            msame = (m1 == m0)
            rec["msame"] = msame
            rec["ann"] = harness.ann_records(reg, reg.mirror.ann)
            if not msame:
                rec["mirror"] = m1
        recs.append(rec)
        if not (same and msame) and ci + 1 < len(ordered):
            # the remaining candidates start from the same state: rebuild it.  A build whose outcome depends on
            # the memory layout (e.g. the order in which a reader declares generated primitives) is retried.
            for attempt in range(8):
                reg = harness.build(init + hist, listeners)
                if harness.project(reg) == s0:
                    break
            else:
                errors.append("rebuild of %r is not deterministic" % (hist,))
    return head, recs, errors


STD_QUERIES = [{"op": "hq", "fn": fn, "root": {"t": "N", "id": 1}, "rec": True, "sel": "DEFAULT"}
               for fn in ("hinstances", "hports", "hpins", "hcables", "hwires")]


def _run_chain(harness, init, hist, listeners, observe=False):
    """execute a whole behaviour on the same objects; every step is a record whose pre-state is the
    previous record's post-state"""
    reg = harness.build(init, listeners)
    if observe:
        reg.held = {}
    s_prev = harness.project(reg)
    m_prev = harness.project_mirror(reg) if reg.mirror else None
    head = {"t": "reset", "h": [], "state": s_prev}
    if m_prev is not None:
        head["mirror"] = m_prev
    recs = []
    last_step = 0          # index (0 = the reset record) of the record holding the current state
    for c in hist:
        if reg.mirror:
            reg.mirror.begin_call()
        try:
            out, exc = harness.execute(reg, c)
        except harness.HarnessError:
            break
        s1 = harness.project(reg)
        rec = {"t": "call", "call": c, "out": out, "exc": exc, "same": s1 == s_prev, "state": s1,
               "pre_rel": last_step}
        s_prev = s1
        if reg.last_ret is not None:
            rec["ret"] = reg.last_ret
            rec["info"] = reg.last_info
        if reg.mirror:
            rec["msame"] = False
            rec["ann"] = harness.ann_records(reg, reg.mirror.ann)
            rec["mirror"] = harness.project_mirror(reg)
        recs.append(rec)
        last_step = len(recs)
        if observe and out == "ok" and c["op"] != "hq":
            # observation records: the standard hierarchical queries after every step, on the same objects
            for q in STD_QUERIES:
                harness.execute(reg, q)
                recs.append({"t": "call", "call": q, "out": "ok", "exc": "", "same": True,
                             "pre_rel": last_step, "ret": reg.last_ret, "info": reg.last_info})
            if reg.held:         # connectivity queries from hierarchical pins held since earlier steps
                pins = [json.loads(k) for k in sorted(reg.held) if json.loads(k) and json.loads(k)[-1][0] == "Q"][:10]
                for hp in pins:
                    for sel in ("OUTSIDE", "ALL"):
                        q = {"op": "hq", "fn": "hwires", "root": {"t": "H", "h": hp}, "rec": False, "sel": sel}
                        try:
                            o2, e2 = harness.execute(reg, q)
                        except harness.HarnessError:
                            continue
                        recs.append({"t": "call", "call": q, "out": o2, "exc": e2, "same": True,
                                     "pre_rel": last_step, "ret": reg.last_ret or [], "info": reg.last_info or []})
            if reg.held:         # pin queries rooted at hierarchical PORT references held since earlier steps (stale ones too)
                ports = [json.loads(k) for k in sorted(reg.held) if json.loads(k) and json.loads(k)[-1][0] == "P"][:8]
                for hp in ports:
                    q = {"op": "hq", "fn": "hpins", "root": {"t": "H", "h": hp}, "rec": False, "sel": "DEFAULT"}
                    try:
                        o2, e2 = harness.execute(reg, q)
                    except harness.HarnessError:
                        continue
                    recs.append({"t": "call", "call": q, "out": o2, "exc": e2, "same": True,
                                 "pre_rel": last_step, "ret": reg.last_ret or [], "info": reg.last_info or []})
            if reg.held:         # re-read every reference held from earlier queries
                q = {"op": "hcheck", "held": True, "hs": [json.loads(k) for k in sorted(reg.held)][:60]}
                harness.execute(reg, q)
                recs.append({"t": "call", "call": q, "out": "ok", "exc": "", "same": True,
                             "pre_rel": last_step, "ret": [], "info": reg.last_info})
    return head, recs, []


def replay_slice(args):
    """worker: replay a slice of groups, write one NDJSON shard.  Returns statistics."""
    idx, init, groups, path, lookup, listeners = args[:6]
    chain = args[6] if len(args) > 6 else False
    observe = chain == "observe"
    import harness
    harness.LOOKUP_VALUES = list(lookup)
    st = {"groups": 0, "calls": 0, "ok": 0, "refused": 0, "timeout": 0, "changed_refused": 0, "unbuildable": 0,
          "exc": {}, "nontrivial_refused": set(), "harness_errors": [], "announcements": 0,
          "transparency_compared": 0}
    n = 0
    with open(path, "w") as f:
        for gi, (hist, cands) in enumerate(groups):
            try:
                if chain:
                    head, recs, errs = _run_chain(harness, init, hist, listeners, observe)
                else:
                    head, recs, errs = _run_group(harness, init, hist, cands, listeners)
            except harness.HarnessError as e:
                st["harness_errors"].append("build %r: %s" % (hist, e))
                continue
            st["harness_errors"].extend(errs)
            others = []
            if listeners and gi % 4 == 0 and not chain:     # listener configurations: same behaviour under "", AB, BA
                for cfg in ("", "AB", "BA", "C", "D", "S"):
                    try:
                        others.append(_run_group(harness, init, hist, cands, cfg)[1])
                    except harness.HarnessError:
                        pass
            n += 1
            base = n
            absidx = {}
            f.write(json.dumps(head, separators=(",", ":")) + "\n")
            st["groups"] += 1
            s0_key = json.dumps(head["state"], sort_keys=True)
            for ci, rec in enumerate(recs):
                if rec is None:
                    st["unbuildable"] += 1
                    continue
                rel = rec.pop("pre_rel", 0)
                rec["pre"] = absidx[rel] if rel else base
                absidx[ci + 1] = n + 1
                if others:
                    agree = True
                    for o in others:
                        r2 = o[ci] if ci < len(o) else None
                        if r2 is None or r2["out"] != rec["out"] or r2["same"] != rec["same"] or \
                                r2.get("state") != rec.get("state"):
                            agree = False
                    if harness.LISTENER_ERRORS:      # registering / removing a listener raised
                        agree = False
                        rec["listener_error"] = harness.LISTENER_ERRORS[0]
                    rec["agree"] = agree
                    st["transparency_compared"] += 1
                n += 1
                f.write(json.dumps(rec, separators=(",", ":")) + "\n")
                st["calls"] += 1
                st[rec["out"]] += 1
                st["announcements"] += len(rec.get("ann", []))
                if rec["out"] == "refused":
                    st["exc"][rec["exc"]] = st["exc"].get(rec["exc"], 0) + 1
                    st["nontrivial_refused"].add(hash((s0_key, _call_key(rec["call"]))))
                    if not rec["same"]:
                        st["changed_refused"] += 1
    st["records"] = n
    st["nontrivial_refused"] = len(st["nontrivial_refused"])
    return st


def replay(init, groups, outdir, nshards=None, lookup=(), listeners="", chain=False):
    nshards = nshards or NPROC
    os.makedirs(outdir, exist_ok=True)
    if not chain and len(groups) < nshards:
        # few states with many candidate calls each: spread the candidates of a state over the workers
        split = []
        for hist, cands in groups:
            cands = sorted(cands, key=_call_key)
            parts = max(1, min(nshards, len(cands) // 40))
            for j in range(parts):
                split.append((hist, cands[j::parts]))
        groups = split
    slices = [(i, init, groups[i::nshards], os.path.join(outdir, "shard%02d.ndjson" % i), list(lookup), listeners, chain)
              for i in range(nshards)]
    slices = [s for s in slices if s[2]]
    if not slices:
        return [], []
    with mp.Pool(min(NPROC, len(slices)), initializer=tlcrun.die_with_parent) as pool:
        stats = pool.map(replay_slice, slices)
    return [s[3] for s in slices], stats


TRACE_CFG = "SPECIFICATION Spec\nCONSTANTS Strict = %s\nPOSTCONDITION Done\nCHECK_DEADLOCK FALSE\n"


def _validate_one(args):
    path, strict, module = args
    fails, drifts, done = [], [], []

    def on_line(line):
        if line.startswith('<<"FAIL", '):
            parts = line[2:-2].split(", ")
            fails.append((int(parts[1]), parts[2].strip('"')))
        elif line.startswith('<<"DRIFT", '):
            parts = line[2:-2].split(", ")
            drifts.append((int(parts[1]), parts[2].strip('"')))
        elif line.startswith('<<"TRACE-DONE"'):
            done.append(line)

    _dbg = os.environ.get("VERIF_DEBUG_LOG")
    if _dbg:
        with open(_dbg, "a") as f:
            f.write("start %s %d\n" % (path, os.getpid()))
    res = tlcrun.run(module, TRACE_CFG % ("TRUE" if strict else "FALSE"), workers=1, heap="3g",
                     env={"TRACE_FILE": path}, on_line=on_line,
                     timeout=int(os.environ.get("VERIF_VALIDATE_TIMEOUT_S", "1500")))
    if _dbg:
        with open(_dbg, "a") as f:
            f.write("end %s %d fails=%d\n" % (path, os.getpid(), len(fails)))
    return {"path": path, "fails": fails, "drifts": drifts, "complete": bool(done),
            "errors": res["errors"], "tail": res.get("tail", [])[-25:], "wall_s": res["wall_s"]}


def validate(shards, strict=True, module="Trace"):
    with mp.Pool(min(NPROC, len(shards)), initializer=tlcrun.die_with_parent) as pool:
        return pool.map(_validate_one, [(p, strict, module) for p in shards])


def history_of(path, k):
    """for record k of a shard: (reset record, calls executed on the same objects before record k,
    the record).  In star mode that is the group's history; in chain mode the steps of the chain."""
    with open(path) as f:
        recs = {}
        for i, line in enumerate(f, 1):
            if i <= k:
                recs[i] = line
            else:
                break
    rec = json.loads(recs[k])
    calls = []
    cur = rec
    while cur["t"] != "reset":
        cur_i = cur["pre"]
        cur = json.loads(recs[cur_i])
        if cur["t"] == "call":
            calls.append(cur["call"])
    return cur, list(cur.get("h", [])) + list(reversed(calls)), rec


def read_record(path, k):
    with open(path) as f:
        for i, line in enumerate(f, 1):
            if i == k:
                return json.loads(line)
    return None


if __name__ == "__main__":
    scope, depth = sys.argv[1], int(sys.argv[2])
    LISTEN = sys.argv[3] if len(sys.argv) > 3 else ""
    t0 = time.time()
    SIM = int(sys.argv[4]) if len(sys.argv) > 4 else None
    res, init, groups = generate(scope, depth, sim=SIM)
    print("generate", res["wall_s"], "s states", res["states"], "distinct", res["distinct"], "groups",
          len(groups), "ok", res["ok"], res["errors"][:5])
    out = tlcrun.scratch("irflow-")
    shards, stats = replay(init, groups, out, lookup=res["lookup"], listeners=LISTEN, chain=("observe" if res.get("walkq") else res.get("walk", False)))
    tot = {k: sum(s[k] for s in stats) for k in ("groups", "calls", "ok", "refused", "changed_refused",
                                                   "unbuildable", "records", "nontrivial_refused")}
    print("replay", round(time.time() - t0, 1), tot, [s["harness_errors"][:2] for s in stats if s["harness_errors"]][:3])
    v = validate(shards)
    nf = sum(len(x["fails"]) for x in v)
    nd = sum(len(x["drifts"]) for x in v)
    print("validate", round(time.time() - t0, 1), "fails", nf, "drifts", nd, "complete",
          all(x["complete"] for x in v))
    from collections import Counter
    cf = Counter()
    cd = Counter()
    for x in v:
        for k, cl in x["fails"]:
            r = read_record(x["path"], k)
            cf[(cl, r.get("call", {}).get("op"), r.get("call", {}).get("rel"), r.get("out"))] += 1
        for k, cl in x["drifts"][:200]:
            r = read_record(x["path"], k)
            cd[(cl, r.get("call", {}).get("op"), r.get("call", {}).get("rel"), r.get("out"))] += 1
        if x["errors"]:
            print("TLC errors", x["path"], x["errors"][:6])
    print("FAILS", cf.most_common(30))
    print("DRIFTS", cd.most_common(30))
    print("scratch", out)
