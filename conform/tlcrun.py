"""Running TLC and reading what it prints."""
import json
import os
import re
import shutil
import subprocess
import tempfile
import time

SPEC = os.path.join(os.path.dirname(os.path.dirname(os.path.abspath(__file__))), "spec")
JAR = "/opt/veriftools/tla/tla2tools.jar:/opt/veriftools/tla/CommunityModules-deps.jar"


class TlcError(Exception):
    pass


def scratch(prefix="verif-"):
    base = os.environ.get("VERIF_SCRATCH") or tempfile.gettempdir()
    return tempfile.mkdtemp(prefix=prefix, dir=base)


def die_with_parent():
    """the calling process gets SIGKILL when its parent dies (no orphaned TLC / worker keeps the machine busy)"""
    try:
        import ctypes
        import signal
        ctypes.CDLL("libc.so.6", use_errno=True).prctl(1, signal.SIGKILL)      # PR_SET_PDEATHSIG
    except Exception:
        pass


def tlc_cmd(module, cfg, workers, metadir, heap="4g", simulate=None, extra=()):
    cmd = ["java", "-XX:+UseParallelGC", "-Xmx" + heap, "-Xss64m", "-Djava.io.tmpdir=" + os.path.dirname(metadir),
           "-cp", JAR, "tlc2.TLC",
           "-workers", str(workers), "-metadir", metadir, "-noGenerateSpecTE", "-config", cfg]
    if simulate:
        cmd += ["-simulate", simulate]
    cmd += list(extra) + [module]
    return cmd


STATS = re.compile(r"^(\d+) states generated, (\d+) distinct states found, (\d+) states left on queue")


def parse_print(line, tag):
    """a line printed by PrintT(<<tag, "json text">>)  ->  python value (or None)"""
    head = '<<"%s", ' % tag
    if not (line.startswith(head) and line.endswith(">>")):
        return None
    return json.loads(json.loads(line[len(head):-2]))


def run(module, cfg_text, workers=16, heap="4g", env=None, on_line=None, timeout=3600,
        simulate=None, extra=(), keep=None):
    """run TLC on spec/<module>.tla with the given cfg text.  Calls on_line for every output line.
    Returns dict(states, distinct, ok, errors, wall_s, rc)."""
    d = scratch("tlc-")
    cfg = os.path.join(d, "run.cfg")
    with open(cfg, "w") as f:
        f.write(cfg_text)
    e = dict(os.environ)
    e.update(env or {})
    t0 = time.time()
    res = {"states": 0, "distinct": 0, "errors": [], "ok": False, "depth": 0}
    try:
        p = subprocess.Popen(tlc_cmd(os.path.join(SPEC, module + ".tla"), cfg, workers,
                                     os.path.join(d, "md"), heap, simulate, extra),
                             cwd=SPEC, env=e, stdout=subprocess.PIPE, stderr=subprocess.STDOUT,
                             text=True, bufsize=1 << 20, preexec_fn=die_with_parent)
        errmode = 0
        tail = []
        # a silent TLC (an oracle that does not terminate on an unforeseen state) is killed by a timer
        import threading
        timed_out = []

        def _kill():
            timed_out.append(1)
            try:
                p.kill()
            except Exception:
                pass
        timer = threading.Timer(timeout, _kill)
        timer.daemon = True
        timer.start()
        for line in p.stdout:
            line = line.rstrip("\n")
            tail.append(line[:300])
            if len(tail) > 60:
                tail.pop(0)
            m = STATS.match(line)
            if m:
                res["states"], res["distinct"] = int(m.group(1)), int(m.group(2))
            elif line.startswith("The depth of the complete state graph search is"):
                res["depth"] = int(line.rstrip(".").split()[-1])
            elif line.startswith("Model checking completed. No error has been found"):
                res["ok"] = True
            elif line.startswith("Exception in thread") or "StackOverflowError" in line:
                res["errors"].append(line[:300])
                p.kill()
                break
            elif line.startswith("Error:") or errmode:
                errmode = errmode + 1 if errmode < 40 else 0
                res["errors"].append(line[:500])
            if on_line:
                on_line(line)
            if time.time() - t0 > timeout:
                p.kill()
                res["errors"].append("timeout after %ss" % timeout)
                break
        res["rc"] = p.wait()
        timer.cancel()
        if timed_out and not any("timeout" in e for e in res["errors"]):
            res["errors"].append("timeout after %ss (TLC killed)" % timeout)
            res["ok"] = False
        res["tail"] = tail
    finally:
        if keep:
            shutil.copytree(d, keep, dirs_exist_ok=True)
        shutil.rmtree(d, ignore_errors=True)
    res["wall_s"] = round(time.time() - t0, 2)
    return res
