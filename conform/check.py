"""Entry point of every registered check:  bin/check <Cnn> --tier quick|thorough [--replay file]

Verdict rule (DESIGN.md 2.3): a VIOLATION is reported only when TLC evaluates a property predicate
of spec/Props.tla to FALSE on a state/transition observed from the implementation.  Disagreement
with the model's transition function that falsifies no predicate is DRIFT (reported, exit 0).
Machinery failures exit 2 and never print a VIOLATION line.
"""
import argparse
import hashlib
import importlib
import json
import os
import shutil
import sys
import time
import traceback

HERE = os.path.dirname(os.path.abspath(__file__))
ROOT = os.path.dirname(HERE)
sys.path.insert(0, HERE)

EVIDENCE_DIR = os.path.join(ROOT, "evidence")
REPLAY_DIR = os.path.join(ROOT, "replays")
KNOWN = os.path.join(ROOT, "known_findings.json")


class Result:
    """what a property handler returns"""

    def __init__(self, pid, tier, seed, level):
        self.pid, self.tier, self.seed, self.level = pid, tier, seed, level
        self.coverage = {}
        self.assumptions = []
        self.violations = []      # dicts: clause, signature (dict), replay (dict), summary
        self.drift = []           # strings
        self.machinery = []       # strings (=> exit 2 when there is no violation)
        self.notes = []


def load_known():
    try:
        with open(KNOWN) as f:
            return json.load(f)
    except FileNotFoundError:
        return {"findings": [], "fixed": []}


def matches(sig, pattern):
    """every key of the pattern must be present in the signature with an equal value"""
    for k, v in pattern.items():
        if k.endswith("_has"):          # every listed item must be in the signature's list
            if not set(v) <= set(sig.get(k[:-4] + "_on", [])):
                return False
        elif sig.get(k) != v:
            return False
    return True


def write_evidence(res, wall):
    os.makedirs(EVIDENCE_DIR, exist_ok=True)
    ev = {"property_id": res.pid, "tier": res.tier, "seed": res.seed, "level": res.level,
          "coverage": res.coverage, "assumptions": res.assumptions, "wall_s": round(wall, 2),
          "violations": len(res.violations)}
    if res.drift:
        ev["coverage"]["drift_examples"] = res.drift[:10]
    if res.notes:
        ev["coverage"]["notes"] = res.notes
    tmp = os.path.join(EVIDENCE_DIR, res.pid + ".json.tmp")
    with open(tmp, "w") as f:
        json.dump(ev, f, indent=1, default=str)
    os.replace(tmp, os.path.join(EVIDENCE_DIR, res.pid + ".json"))


def finish(res, t0, is_replay=False):
    known = load_known()
    unknown = 0
    seen_known = set()
    seen_sig = set()
    os.makedirs(REPLAY_DIR, exist_ok=True)
    for v in res.violations:
        sig = dict(v["signature"])
        sig["property"] = res.pid
        sig["clause"] = v["clause"]
        hit = None
        for kf in known.get("findings", []):
            if kf.get("property") == res.pid and matches(sig, kf.get("match", {})):
                hit = kf
                break
        if hit is not None:
            if hit["id"] not in seen_known:
                seen_known.add(hit["id"])
                print("KNOWN-FINDING: property=%s %s [%s]" % (res.pid, hit["what"], hit["id"]))
            continue
        key = json.dumps(sig, sort_keys=True)
        if key in seen_sig:
            continue
        seen_sig.add(key)
        unknown += 1
        if unknown <= 8:
            body = json.dumps(v["replay"], sort_keys=True, default=str)
            h = hashlib.sha1(body.encode()).hexdigest()[:12]
            path = os.path.join(REPLAY_DIR, "%s-%s.json" % (res.pid, h))
            with open(path, "w") as f:
                json.dump({"property": res.pid, "clause": v["clause"], "signature": sig,
                           "summary": v.get("summary", ""), "replay": v["replay"]}, f, indent=1,
                          default=str)
            print("VIOLATION property=%s replay=%s" % (res.pid, path))
            print("  clause=%s %s" % (v["clause"], v.get("summary", "")))
    res.coverage["known_findings_seen"] = sorted(seen_known)
    res.coverage["distinct_unknown_violation_signatures"] = unknown
    for d in res.drift[:10]:
        print("DRIFT: " + d, file=sys.stderr)
    if not is_replay:           # a replay run never overwrites the evidence of the real check
        write_evidence(res, time.time() - t0)
    if unknown:
        return 1
    if res.machinery:
        for m in res.machinery[:20]:
            print("MACHINERY: " + m, file=sys.stderr)
        return 2
    return 0


def main():
    ap = argparse.ArgumentParser()
    ap.add_argument("pid")
    ap.add_argument("--tier", default=os.environ.get("VERIF_TIER", "quick"))
    ap.add_argument("--replay")
    a = ap.parse_args()
    seed = int(os.environ.get("VERIF_SEED", "0") or 0)
    os.environ.setdefault("PYTHONHASHSEED", "0")
    t0 = time.time()
    # a check that does not finish is a machinery failure, not a verdict: dump every thread's stack and exit 2
    import faulthandler
    deadline = int(os.environ.get("VERIF_DEADLINE_S", "2700" if a.tier == "quick" else "43200"))
    faulthandler.dump_traceback_later(deadline, exit=True)
    import properties
    try:
        handler = properties.HANDLERS[a.pid]
    except KeyError:
        print("no check for " + a.pid, file=sys.stderr)
        return 2
    try:
        if a.replay:
            with open(a.replay) as f:
                rp = json.load(f)
            res = handler(a.pid, a.tier, seed, replay=rp)
        else:
            res = handler(a.pid, a.tier, seed)
    except Exception:
        traceback.print_exc()
        print("MACHINERY: handler crashed", file=sys.stderr)
        return 2
    return finish(res, t0, is_replay=bool(a.replay))


if __name__ == "__main__":
    sys.exit(main())
