"""Recorder for traces of the real code under the repository's OWN tests (trace validation direction
"code -> specification").

spydrnet/__init__.py imports this module and calls install() when SPYDRNET_VERIF is set (the guarded
hook; see MANIFEST.hooks).  install() wraps every public mutator of the IR classes.  At the return of each
OUTERMOST mutator call (the linearization point of a sequential library; also on the error path) one
record is written: the call in the specification's vocabulary, its outcome, and the full projected state
(harness.project - the same projection pi the replay direction uses).  The state is also projected at
call entry; if it differs from the last logged state, something changed it without an observed call
(a parser or clone() writing private attributes, a test poking internals) and a "reset" record is logged,
so the pre-state of every logged transition is exactly what the call started from.

The module is also a pytest plugin (-p spydrnet_verif_recorder): one trace segment per test.
Segments whose world grows past CAP elements are cut (recorded in the segment header's "cut").
"""
import json
import os
import sys

OUT = os.environ.get("SPYDRNET_VERIF_OUT", "")
CAP = int(os.environ.get("SPYDRNET_VERIF_CAP", "300"))           # elements of all kinds
MAXREC = int(os.environ.get("SPYDRNET_VERIF_MAXREC", "400"))     # records per segment

_S = {"installed": False, "depth": 0, "reg": None, "recs": None, "last": None, "seg": None, "cut": "",
      "segments": [], "busy": False}
H = None          # the harness module, imported lazily (it imports spydrnet)


def _harness():
    global H
    if H is None:
        import harness
        H = harness
    return H


# ---------------------------------------------------------------------------------------------------
def begin(name):
    h = _harness()
    _S.update(reg=h.Registry(), recs=[], last=None, seg=name, cut="", depth=0)


def end():
    if _S["recs"] is None:
        return
    if _S["recs"]:
        _S["segments"].append({"seg": _S["seg"], "cut": _S["cut"], "recs": _S["recs"]})
    _S.update(reg=None, recs=None, last=None, seg=None)


def flush(path):
    with open(path, "w") as f:
        for s in _S["segments"]:
            f.write(json.dumps({"seg": s["seg"], "cut": s["cut"], "n": len(s["recs"])}) + "\n")
            for r in s["recs"]:
                f.write(json.dumps(r) + "\n")
    _S["segments"] = []


def _active():
    return _S["recs"] is not None and not _S["cut"] and not _S["busy"]


def _size(reg):
    return sum(reg.count(k) for k in _harness().KINDS)


def _project():
    h = _harness()
    reg = _S["reg"]
    _S["busy"] = True
    try:
        st = h.project(reg)
    finally:
        _S["busy"] = False
    if _size(reg) > CAP:
        _S["cut"] = "world larger than %d elements" % CAP
        return None
    return st


def _rid(obj, kind=None):
    h = _harness()
    if obj is None:
        return 0
    k = h.kind_of(obj)
    if k is None or (kind is not None and k != kind):
        return -1
    return _S["reg"].id_of(obj, k)


def _pinref(p):
    h = _harness()
    try:
        r = h._pinref(_S["reg"], p)
        if r["k"] == "x" and r.get("t") == "outer" and r["i"] > 0 and r["q"] > 0:
            return {"k": "p", "i": r["i"], "q": r["q"]}      # a proxy: names an instance pin by (instance, inner pin)
        return r
    except Exception:
        return {"k": "x", "t": type(p).__name__, "i": 0, "q": 0}


def _name(v):
    return "" if v is None else _harness()._val(v)


# ---------------------------------------------------------------------------------------------------
# translation of a Python call into the specification's call record (fields as in spec/Scopes.tla)
REL_OF = {("N", "library"): "NL", ("L", "definition"): "LD", ("D", "port"): "DP", ("D", "cable"): "DC",
          ("D", "child"): "DI", ("P", "pin"): "PQ", ("C", "wire"): "CW"}
PLURAL = {"libraries": "NL", "definitions": "LD", "ports": "DP", "cables": "DC", "children": "DI"}


def _arg(args, kwargs, i, name, default=None):
    if len(args) > i:
        return args[i]
    return kwargs.get(name, default)


def _seq_ids(value, kind):
    try:
        return [_rid(x, kind) for x in list(value)]
    except Exception:
        return [-1]


def translate(kind, meth, self, args, kwargs):
    """-> call record; anything not in the specification's vocabulary is op "other" """
    me = _rid(self)
    h = _harness()
    try:
        if meth == "clone" and kind is not None:
            return {"op": "clone", "kind": kind, "x": me}
        if meth in ("uniquify", "flatten") and h.kind_of(self) == "N":
            return {"op": meth, "n": me}
        if meth.startswith("add_") or (meth.startswith("remove_") and not meth.endswith("_from")):
            what = meth.split("_", 1)[1]
            rel = REL_OF.get((kind, what))
            if rel:
                ck = h.REL[rel][1]
                x = _arg(args, kwargs, 0, what if what != "child" else ("instance" if meth == "add_child" else "child"))
                if meth.startswith("add_"):
                    pos = _arg(args, kwargs, 1, "position")
                    return {"op": "add", "rel": rel, "p": me, "x": _rid(x, ck), "pos": -1 if pos is None else pos}
                return {"op": "remove", "rel": rel, "p": me, "x": _rid(x, ck)}
        if meth.startswith("remove_") and meth.endswith("_from"):
            rel = PLURAL.get(meth[len("remove_"):-len("_from")]) or {"pins": "PQ", "wires": "CW"}.get(meth[len("remove_"):-len("_from")])
            if rel:
                return {"op": "remove_from", "rel": rel, "p": me, "xs": _seq_ids(_arg(args, kwargs, 0, "x"), h.REL[rel][1])}
        if meth in ("create_library", "create_definition", "create_port", "create_cable"):
            rel = REL_OF[(kind, meth.split("_", 1)[1])]
            rec = {"op": "create", "rel": rel, "p": me, "name": _name(_arg(args, kwargs, 0, "name")), "n": 0}
            if meth == "create_port":
                n = _arg(args, kwargs, 6, "pins")
                rec["n"] = n if isinstance(n, int) else 0
            if meth == "create_cable":
                n = _arg(args, kwargs, 5, "wires")
                rec["n"] = n if isinstance(n, int) else 0
            npos = {"create_port": 6, "create_cable": 5}.get(meth, -1)      # position of pins= / wires=
            extra = [k for k in kwargs if k not in ("name", "pins", "wires") and kwargs[k] is not None] or \
                [1 for j, a in enumerate(args) if j >= 1 and j != npos and a is not None]
            rec["extra"] = bool(extra)
            return rec
        if meth == "create_child":
            return {"op": "create_child", "p": me, "name": _name(_arg(args, kwargs, 0, "name")),
                    "ref": _rid(_arg(args, kwargs, 2, "reference"), "D"),
                    "extra": _arg(args, kwargs, 1, "properties") is not None}
        if meth in ("create_pin", "create_wire"):
            return {"op": "create", "rel": "PQ" if kind == "P" else "CW", "p": me, "name": "", "n": 0, "extra": False}
        if meth in ("create_pins", "create_wires"):
            n = _arg(args, kwargs, 0, "count")
            return {"op": "create_n", "rel": "PQ" if kind == "P" else "CW", "p": me, "n": n if isinstance(n, int) else -1}
        if meth == "set:" + "pins" and kind == "W":
            try:
                seq = [_pinref(p) for p in list(args[0])]
            except Exception:
                seq = []
            return {"op": "reorder_pins", "w": me, "seq": seq}
        if meth.startswith("set:") and (meth[4:] in PLURAL or (meth[4:], kind) in (("pins", "P"), ("wires", "C"))):
            rel = PLURAL.get(meth[4:]) or ("PQ" if kind == "P" else "CW")
            return {"op": "reorder", "rel": rel, "p": me, "seq": _seq_ids(args[0], h.REL[rel][1])}
        if meth == "connect_pin":
            pos = _arg(args, kwargs, 1, "position")
            return {"op": "connect", "w": me, "pin": _pinref(_arg(args, kwargs, 0, "pin")), "pos": -1 if pos is None else pos}
        if meth == "disconnect_pin":
            return {"op": "disconnect", "w": me, "pin": _pinref(_arg(args, kwargs, 0, "pin"))}
        if meth == "disconnect_pins_from":
            try:
                pins = [_pinref(p) for p in list(_arg(args, kwargs, 0, "pins"))]
            except Exception:
                pins = []
            return {"op": "disconnect_from", "w": me, "pins": pins}
        if meth == "set:reference":
            return {"op": "set_ref", "i": me, "d": _rid(args[0], "D") if args[0] is None or h.kind_of(args[0]) == "D" else -1}
        if meth == "set:top_instance":
            v = args[0]
            if v is None or h.kind_of(v) == "I":
                return {"op": "set_top", "n": me, "i": _rid(v, "I")}
            if h.kind_of(v) == "D":
                return {"op": "set_top_def", "n": me, "d": _rid(v, "D")}
        if meth == "set:name":
            if args[0] is None:
                return {"op": "set_name_none", "kind": kind, "x": me}
            if isinstance(args[0], str):
                return {"op": "set_name", "kind": kind, "x": me, "val": h._val(args[0])}
        if meth == "del:name":
            return {"op": "del_name", "kind": kind, "x": me}
        if meth in ("__setitem__", "__delitem__", "pop"):
            key = args[0] if args else None
            inv = {v: k for k, v in h.KEYMAP.items()}
            if key in inv and inv[key] in ("name", "eid", "k"):
                if meth == "__setitem__":
                    if isinstance(args[1], str):
                        return {"op": "set_item", "kind": kind, "x": me, "key": inv[key], "val": h._val(args[1])}
                else:
                    return {"op": "del_item" if meth == "__delitem__" else "pop_item", "kind": kind, "x": me, "key": inv[key]}
    except Exception as e:      # the translator must never disturb the program under observation
        return {"op": "other", "m": meth, "kind": kind or "", "x": me, "terr": type(e).__name__}
    return {"op": "other", "m": meth, "kind": kind or "", "x": me}


# ---------------------------------------------------------------------------------------------------
def _log_reset(st, why):
    _S["recs"].append({"t": "reset", "why": why, "state": st})
    _S["last"] = st


def _enter(kind, meth, self, args, kwargs):
    """-> (call record, index of the pre-state line) or None when not recording"""
    if not _active():
        return None
    if len(_S["recs"]) >= MAXREC:
        _S["cut"] = "more than %d records" % MAXREC
        return None
    call = translate(kind, meth, self, args, kwargs)
    st = _project()
    if st is None:
        return None
    if _S["last"] is None or st != _S["last"]:
        _log_reset(st, "start" if _S["last"] is None else "unobserved change")
    pre = max(i for i, r in enumerate(_S["recs"]) if "state" in r)
    return call, pre


def _exit(tok, exc, result=None):
    call, pre = tok
    ret = None
    if call["op"] == "clone" and exc is None and result is not None and _S["recs"] is not None and not _S["cut"]:
        ret = [_rid(result, call["kind"])]
    if _S["recs"] is None or _S["cut"]:
        return
    st = _project()
    if st is None:
        return
    same = st == _S["last"]
    rec = {"t": "call", "pre": pre, "call": call, "out": "ok" if exc is None else "refused",
           "exc": "" if exc is None else type(exc).__name__, "same": same}
    if ret is not None:
        rec["ret"] = ret
    if not same:
        rec["state"] = st
        _S["last"] = st
    _S["recs"].append(rec)


def _wrap(kind, meth, fn):
    def wrapper(*a, **kwargs):
        if _S["depth"] or not _active() or not a:
            return fn(*a, **kwargs)
        # a one-shot iterator argument is materialised once, so that reading it for the record does not consume it
        a = tuple(list(x) if (hasattr(x, "__next__") and iter(x) is x) else x for x in a)
        tok = _enter(kind, meth, a[0], a[1:], kwargs)
        if tok is None:
            return fn(*a, **kwargs)
        _S["depth"] += 1
        exc = None
        result = None
        try:
            result = fn(*a, **kwargs)
            return result
        except Exception as e:
            exc = e
            raise
        finally:
            _S["depth"] -= 1
            try:
                _exit(tok, exc, result)
            except Exception as e2:           # never disturb the program under observation
                _S["cut"] = "recorder error: %r" % (e2,)
    wrapper.__name__ = getattr(fn, "__name__", meth)
    wrapper.__doc__ = getattr(fn, "__doc__", None)
    wrapper.__wrapped__ = fn
    return wrapper


METHODS = {
    "N": ["create_library", "add_library", "remove_library", "remove_libraries_from", "set_top_instance"],
    "L": ["create_definition", "add_definition", "remove_definition", "remove_definitions_from"],
    "D": ["create_port", "add_port", "remove_port", "remove_ports_from", "create_child", "add_child", "remove_child",
          "remove_children_from", "create_cable", "add_cable", "remove_cable", "remove_cables_from"],
    "P": ["create_pins", "create_pin", "add_pin", "remove_pin", "remove_pins_from"],
    "C": ["create_wires", "create_wire", "add_wire", "remove_wire", "remove_wires_from"],
    "W": ["connect_pin", "disconnect_pin", "disconnect_pins_from"],
    "I": [],
}
SETTERS = {
    "N": ["libraries", "top_instance"], "L": ["definitions"], "D": ["ports", "cables", "children"],
    "P": ["pins", "direction"], "C": ["wires"], "W": ["pins"], "I": ["reference"],
}


def install():
    if _S["installed"]:
        return
    _S["installed"] = True
    import spydrnet.ir.netlist, spydrnet.ir.library, spydrnet.ir.definition, spydrnet.ir.port      # noqa: E401
    import spydrnet.ir.cable, spydrnet.ir.instance, spydrnet.ir.wire, spydrnet.ir.bundle            # noqa: E401
    import spydrnet.ir.first_class_element
    base = {"N": spydrnet.ir.netlist.Netlist, "L": spydrnet.ir.library.Library,
            "D": spydrnet.ir.definition.Definition, "P": spydrnet.ir.port.Port, "C": spydrnet.ir.cable.Cable,
            "I": spydrnet.ir.instance.Instance, "W": spydrnet.ir.wire.Wire}
    for k, cls in base.items():
        for m in METHODS[k]:
            if m in cls.__dict__:
                setattr(cls, m, _wrap(k, m, cls.__dict__[m]))
        for p in SETTERS[k]:
            prop = cls.__dict__.get(p)
            if isinstance(prop, property) and prop.fset is not None:
                setattr(cls, p, property(prop.fget, _wrap(k, "set:" + p, prop.fset),
                                         _wrap(k, "del:" + p, prop.fdel) if prop.fdel else None, prop.__doc__))
    import spydrnet.ir.innerpin
    base_clone = dict(base, Q=spydrnet.ir.innerpin.InnerPin)
    for k, cls in base_clone.items():
        if "clone" in cls.__dict__:
            setattr(cls, "clone", _wrap(k, "clone", cls.__dict__["clone"]))
    # whole-netlist operations are ONE observed step (their inner calls are nested, not logged)
    import importlib
    for modname, fname in (("spydrnet.uniquify", "uniquify"), ("spydrnet.flatten", "flatten")):
        mod = importlib.import_module(modname)
        if mod is not None and hasattr(mod, fname):
            setattr(mod, fname, _wrap(None, fname, getattr(mod, fname)))
    pkg = sys.modules.get("spydrnet")
    for modname, fname in (("spydrnet.parsers", "parse"), ("spydrnet.composers", "compose")):
        mod = sys.modules.get(modname)
        if mod is not None and hasattr(mod, fname):
            w = _wrap(None, fname, getattr(mod, fname))
            setattr(mod, fname, w)
            if pkg is not None and getattr(pkg, fname, None) is w.__wrapped__:
                setattr(pkg, fname, w)
    # bundle attributes and element data: the element's own kind is found at call time
    def kinded(meth, fn):
        def wrapper(self, *args, **kwargs):
            if _S["depth"] or not _active():
                return fn(self, *args, **kwargs)
            k = _harness().kind_of(self)
            if k is None:
                return fn(self, *args, **kwargs)
            return _wrap(k, meth, fn)(self, *args, **kwargs)
        wrapper.__name__ = getattr(fn, "__name__", meth)
        wrapper.__wrapped__ = fn
        return wrapper
    B = spydrnet.ir.bundle.Bundle
    for p in ("is_downto", "is_scalar", "is_array", "lower_index"):
        prop = B.__dict__.get(p)
        if isinstance(prop, property) and prop.fset is not None:
            setattr(B, p, property(prop.fget, kinded("set:" + p, prop.fset), prop.fdel, prop.__doc__))
    F = spydrnet.ir.first_class_element.FirstClassElement
    prop = F.__dict__.get("name")
    if isinstance(prop, property):
        setattr(F, "name", property(prop.fget, kinded("set:name", prop.fset), kinded("del:name", prop.fdel) if prop.fdel else None, prop.__doc__))
    for m in ("__setitem__", "__delitem__", "pop"):
        if m in F.__dict__:
            setattr(F, m, kinded(m, F.__dict__[m]))


# ---------------------------------------------------------------------------------------------------
# pytest plugin: one segment per test
def pytest_runtest_setup(item):
    if _S["installed"]:
        end()
        begin(item.nodeid)


def pytest_runtest_teardown(item, nextitem):
    if _S["installed"]:
        end()


def pytest_sessionfinish(session, exitstatus):
    if _S["installed"] and OUT:
        flush(OUT)
