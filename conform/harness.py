"""Binding between the TLA+ specification (spec/IR.tla) and the real spydrnet classes.

* Registry  - binds the specification's element ids (1..n per kind, in creation order) to the
              Python objects of the implementation.
* project   - the projection pi: reads the implementation's state through its public read API and
              returns it in exactly the shape of the specification's state record.
* execute   - performs one specification "call" record on the real objects.

spydrnet is imported from /repo (PYTHONPATH), i.e. the current working tree is what runs.
"""
import json
import os
import sys

REPO = os.environ.get("VERIF_REPO", "/repo")
if REPO not in sys.path:
    sys.path.insert(0, REPO)
os.environ.setdefault("EXAMPLE_NETLISTS_PATH", os.path.join(REPO, "example_netlists"))

import spydrnet as sdn  # noqa: E402
from spydrnet.ir import (Netlist, Library, Definition, Port, Cable, Instance, InnerPin, OuterPin,  # noqa: E402
                         Wire)

KINDS = ["N", "L", "D", "P", "C", "I", "Q", "W"]
CLASS_OF = {"N": Netlist, "L": Library, "D": Definition, "P": Port, "C": Cable, "I": Instance,
            "Q": InnerPin, "W": Wire}
# kind detection uses the base classes (spydrnet.ir.X is a generated subclass of spydrnet.ir.x.X; an
# object of the base class is still that kind of element - its class is reported under badClass)
import spydrnet.ir.netlist, spydrnet.ir.library, spydrnet.ir.definition, spydrnet.ir.port  # noqa: E402,E401
import spydrnet.ir.cable, spydrnet.ir.instance, spydrnet.ir.innerpin, spydrnet.ir.wire  # noqa: E402,E401
BASE_OF = {"N": spydrnet.ir.netlist.Netlist, "L": spydrnet.ir.library.Library,
           "D": spydrnet.ir.definition.Definition, "P": spydrnet.ir.port.Port,
           "C": spydrnet.ir.cable.Cable, "I": spydrnet.ir.instance.Instance,
           "Q": spydrnet.ir.innerpin.InnerPin, "W": spydrnet.ir.wire.Wire}
KEYMAP = {"name": ".NAME", "eid": "EDIF.identifier", "ns": ".NS", "k": "k", "props": "EDIF.properties"}
MODELLED_KEYS = set(KEYMAP.values()) | {"VERILOG.InlineConstraints", "VERILOG.Parameters", "EBLIF.type",
                                         "EBLIF.cname", "EBLIF.attr", "EBLIF.param"}


class HarnessError(Exception):
    """The harness could not do what it was asked (not a verdict about spydrnet)."""


def kind_of(obj):
    for k in KINDS:
        if isinstance(obj, BASE_OF[k]):
            return k
    return None


class Registry:
    def __init__(self):
        self.objs = {k: [] for k in KINDS}
        self.ids = {}

    def bind(self, kind, obj):
        key = id(obj)
        if key in self.ids:
            return self.ids[key][1]
        self.objs[kind].append(obj)
        n = len(self.objs[kind])
        self.ids[key] = (kind, n)
        return n

    def get(self, kind, n):
        if n == 0 or n is None:
            return None
        try:
            return self.objs[kind][n - 1]
        except IndexError:
            raise HarnessError("no %s with id %s" % (kind, n))

    def id_of(self, obj, kind=None, adopt=True):
        """id of obj (0 for None); unknown objects are adopted under the next id of their kind"""
        if obj is None:
            return 0
        ent = self.ids.get(id(obj))
        if ent is not None:
            return ent[1]
        k = kind_of(obj)
        if k is None or (kind is not None and k != kind) or not adopt:
            return -1
        return self.bind(k, obj)

    def count(self, kind):
        return len(self.objs[kind])


def _val(v):
    if v is None:
        return "<None>"
    if isinstance(v, str):
        if len(v) > 60:          # long names are logged as the token they were made from
            k = len(v) - len(v.lstrip("a"))
            if k >= 50:
                return "@%d:%s" % (len(v), v[k:])
            if v[0] == "1":
                k = len(v) - len(v[1:].lstrip("a"))
                if k >= 50:
                    return "#%d:%s" % (len(v), v[k:])
            if v[0] == "&":
                k = len(v) - len(v[1:].lstrip("a"))
                if k >= 50:
                    return "&%d:%s" % (len(v), v[k:])
        return v
    return "<%s>%r" % (type(v).__name__, v)


def _data(e):
    d = e.data
    other = {k: d[k] for k in d if k not in MODELLED_KEYS and not k.startswith("EDIF.")}
    emeta = {k: d[k] for k in d if k not in MODELLED_KEYS and k.startswith("EDIF.")}
    rec = {"name": _val(d[".NAME"]) if ".NAME" in d else "",
           "eid": _val(d["EDIF.identifier"]) if "EDIF.identifier" in d else "",
           "ns": _val(d[".NS"]) if ".NS" in d else "",
           "k": _val(d["k"]) if "k" in d else "", "props": _props(d["EDIF.properties"]) if "EDIF.properties" in d else "", "vattr": _vattr(d), "eb": _eb(d)}
    if other:
        rec["other"] = json.dumps(other, sort_keys=True, default=repr)
    if emeta:
        rec["emeta"] = json.dumps(emeta, sort_keys=True, default=repr)
    return rec


def _vattr(d):
    """the (* *) attributes and #() parameters a Verilog-read element carries, as one canonical string"""
    parts = []
    for key, tag in (("VERILOG.InlineConstraints", "attr"), ("VERILOG.Parameters", "param")):
        v = d[key] if key in d else None
        if isinstance(v, dict) and v:
            parts.append(tag + ":" + ",".join("%s=%s" % (a, str(b).strip('"') if b is not None else "") for a, b in sorted(v.items())))
    return ";".join(parts)


def _eb(d):
    """what an EBLIF-read instance carries (.subckt/.gate/.names/.latch, .cname, .attr, .param), as one string"""
    if "EBLIF.type" not in d:
        return ""
    parts = ["type=" + str(d["EBLIF.type"]).replace("EBLIF.", "")]
    # the effective .cname: an instance read without one is named by the reader and written with that name as .cname
    if "EBLIF.cname" in d:
        parts.append("cname=" + str(d["EBLIF.cname"]))
    elif ".NAME" in d and d[".NAME"] is not None:
        parts.append("cname=" + str(d[".NAME"]))
    if "EBLIF.output_covers" in d:       # .names: the single-output cover lines
        parts.append("covers=" + "|".join(str(x) for x in d["EBLIF.output_covers"]))
    for key, tag in (("EBLIF.attr", "attr"), ("EBLIF.param", "param")):
        v = d[key] if key in d else None
        if isinstance(v, dict) and v:
            parts.append(tag + ":" + ",".join("%s=%s" % (a, b) for a, b in sorted(v.items())))
    return ";".join(parts)


def _props(v):
    """the nested user value is a list holding one dict; its abstraction is the token inside"""
    try:
        if isinstance(v, list) and v and all("identifier" in x and "value" in x for x in v):
            tok = _val(v[0]["value"])
            if len(v) == 2 and v[1] == {"identifier": "q", "value": "w"} and \
                    set(v[0]) <= {"identifier", "value", "original_identifier"}:
                return tok
            return tok + "#" + str(len(v))
    except Exception:
        pass
    return "<%r>" % (v,)


def _attr(b, is_port):
    raw = getattr(b, "_is_scalar", None)
    return {"dir": b.direction.value if is_port else 0,
            "downto": bool(b.is_downto) if isinstance(b.is_downto, bool) else _val(b.is_downto),
            "scalar": raw if isinstance(raw, bool) else bool(b.is_scalar),
            "lower": b.lower_index if isinstance(b.lower_index, int) else _val(b.lower_index)}


def _pinref(reg, p):
    if isinstance(p, InnerPin):
        return {"k": "i", "q": reg.id_of(p, "Q")}
    if isinstance(p, OuterPin):
        inst, ip = p.instance, p.inner_pin
        if inst is not None and ip is not None and isinstance(inst, Instance):
            try:
                stored = inst.pins.get(ip, None)
            except Exception:
                stored = None
            if stored is p:
                return {"k": "o", "i": reg.id_of(inst, "I"), "q": reg.id_of(ip, "Q")}
        return {"k": "x", "t": "outer", "i": reg.id_of(inst, "I") if isinstance(inst, Instance) else 0,
                "q": reg.id_of(ip, "Q") if isinstance(ip, InnerPin) else 0}
    return {"k": "x", "t": type(p).__name__, "i": 0, "q": 0}


LOOKUP_VALUES = []   # set by the flow for naming scopes: values asked of every naming scope


def _lookup_table(reg):
    from spydrnet.util.get_libraries import get_libraries
    from spydrnet.util.get_definitions import get_definitions
    from spydrnet.util.get_ports import get_ports
    from spydrnet.util.get_cables import get_cables
    from spydrnet.util.get_instances import get_instances
    fns = {"N": [("L", get_libraries)], "L": [("D", get_definitions)],
           "D": [("P", get_ports), ("C", get_cables), ("I", get_instances)]}
    out = []
    for pk in ("N", "L", "D"):
        for pid, p in enumerate(list(reg.objs[pk]), 1):
            for ck, fn in fns[pk]:
                for key in ("name", "eid"):
                    for v in LOOKUP_VALUES:
                        try:
                            res = [reg.id_of(x, ck) for x in fn(p, v, key=KEYMAP[key])]
                        except Exception:
                            res = [-1]
                        out.append({"pk": pk, "p": pid, "ck": ck, "key": key, "val": v, "res": res})
    return out


def project(reg):
    """pi: the implementation's state as the specification's state record.

    Walks every element the registry knows (attached or not) through the public read API; objects
    met on the way that the registry has never seen are adopted under fresh ids, so leaks and
    dangling references become visible instead of being dropped.  Repeats until no new object
    turns up."""
    while True:
        adopt(reg)
        before = {k: reg.count(k) for k in KINDS}
        st = _project_once(reg)
        if LOOKUP_VALUES:
            st["lookup"] = _lookup_table(reg)
        if all(reg.count(k) == before[k] for k in KINDS):
            return st


def _each(reg, kind):
    """iterate over the registry's elements of a kind, including ones adopted during the iteration"""
    i = 0
    objs = reg.objs[kind]
    while i < len(objs):
        yield objs[i]
        i += 1


def adopt(reg):
    """adopt every object reachable from the registry's elements under fresh ids, in the canonical
    walk order of the specification: netlists, libraries, definitions, ports, cables, instances
    (container lists before reference sets), then pins and wires.  The order only matters for
    strict conformance of creating calls (clone); the property predicates do not depend on ids."""
    while True:
        before = tuple(reg.count(k) for k in KINDS)
        for n in _each(reg, "N"):
            for x in n.libraries:
                reg.id_of(x, "L")
            reg.id_of(n.top_instance, "I")
        for x in _each(reg, "L"):
            reg.id_of(x.netlist, "N")
            for d in x.definitions:
                reg.id_of(d, "D")
        for d in _each(reg, "D"):
            reg.id_of(d.library, "L")
        for d in _each(reg, "D"):
            for p in d.ports:
                reg.id_of(p, "P")
        for d in _each(reg, "D"):
            for c in d.cables:
                reg.id_of(c, "C")
        for d in _each(reg, "D"):
            for i in d.children:
                reg.id_of(i, "I")
        for p in _each(reg, "P"):
            reg.id_of(p.definition, "D")
        for c in _each(reg, "C"):
            reg.id_of(c.definition, "D")
        for i in _each(reg, "I"):
            reg.id_of(i.parent, "D")
            reg.id_of(i.reference, "D")
        for d in _each(reg, "D"):
            for i in sorted(d.references, key=lambda o: reg.ids.get(id(o), ("", 1 << 30))[1]):
                reg.id_of(i, "I")
        if tuple(reg.count(k) for k in KINDS) != before:
            continue
        for p in _each(reg, "P"):
            for q in p.pins:
                reg.id_of(q, "Q")
        for c in _each(reg, "C"):
            for w in c.wires:
                reg.id_of(w, "W")
        for i in _each(reg, "I"):
            for ip, op in i.pins.items():
                reg.id_of(ip, "Q")
                reg.id_of(op.wire, "W")
        for q in _each(reg, "Q"):
            reg.id_of(q.port, "P")
            reg.id_of(q.wire, "W")
        for w in _each(reg, "W"):
            reg.id_of(w.cable, "C")
            for p in w.pins:
                if isinstance(p, BASE_OF["Q"]):
                    reg.id_of(p, "Q")
        if tuple(reg.count(k) for k in KINDS) == before:
            return


def _ids(reg, seq, kind):
    return [reg.id_of(x, kind) for x in seq]


def _project_once(reg):
    s = {}
    N, L, D, P, C, I, Q, W = (list(reg.objs[k]) for k in KINDS)
    s["nlLibs"] = [_ids(reg, n.libraries, "L") for n in N]
    s["nlTop"] = [reg.id_of(n.top_instance, "I") for n in N]
    s["nlData"] = [_data(n) for n in N]
    s["libNl"] = [reg.id_of(x.netlist, "N") for x in L]
    s["libDefs"] = [_ids(reg, x.definitions, "D") for x in L]
    s["libData"] = [_data(x) for x in L]
    s["defLib"] = [reg.id_of(d.library, "L") for d in D]
    s["defPorts"] = [_ids(reg, d.ports, "P") for d in D]
    s["defCables"] = [_ids(reg, d.cables, "C") for d in D]
    s["defKids"] = [_ids(reg, d.children, "I") for d in D]
    s["defRefs"] = [sorted(reg.id_of(i, "I") for i in d.references) for d in D]
    s["defData"] = [_data(d) for d in D]
    s["portDef"] = [reg.id_of(p.definition, "D") for p in P]
    s["portPins"] = [_ids(reg, p.pins, "Q") for p in P]
    s["portData"] = [_data(p) for p in P]
    s["portAttr"] = [_attr(p, True) for p in P]
    s["cabDef"] = [reg.id_of(c.definition, "D") for c in C]
    s["cabWires"] = [_ids(reg, c.wires, "W") for c in C]
    s["cabData"] = [_data(c) for c in C]
    s["cabAttr"] = [_attr(c, False) for c in C]
    s["instParent"] = [reg.id_of(i.parent, "D") for i in I]
    s["instRef"] = [reg.id_of(i.reference, "D") for i in I]
    ipins = []
    for inst in I:
        ents = []
        view = inst.pins
        for ip, op in view.items():
            ok = False
            try:
                ok = (view[ip] is op) and (view[op] is op) and (ip in view) and (op in view) \
                    and (view.get(ip) is op)
            except Exception:
                ok = False
            ents.append({"ip": reg.id_of(ip, "Q"), "wire": reg.id_of(op.wire, "W"),
                         "inst": reg.id_of(op.instance, "I"), "inner": reg.id_of(op.inner_pin, "Q"),
                         "ok": bool(ok)})
        # iteration over the view must yield the same outer pins in the same order
        if [x for x in view] != [op for _, op in view.items()]:
            for e in ents:
                e["ok"] = False
        ipins.append(ents)
    s["instPins"] = ipins
    s["instTop"] = [bool(i.is_top_instance) for i in I]
    s["instData"] = [_data(i) for i in I]
    s["pinPort"] = [reg.id_of(q.port, "P") for q in Q]
    s["pinWire"] = [reg.id_of(q.wire, "W") for q in Q]
    s["wireCable"] = [reg.id_of(w.cable, "C") for w in W]
    s["wirePins"] = [[_pinref(reg, p) for p in w.pins] for w in W]
    s["nsDefault"] = _val(sdn.namespace_manager.default)
    bad = []
    for k, cname in (("N", "Netlist"), ("L", "Library"), ("D", "Definition"), ("P", "Port"), ("C", "Cable"),
                     ("I", "Instance"), ("Q", "InnerPin"), ("W", "Wire")):
        pub = getattr(sdn, cname)
        for n, o in enumerate(reg.objs[k], 1):
            if not isinstance(o, pub):
                bad.append([k, n])
    s["badClass"] = bad
    return s


# ------------------------------------------------------------------------------------------------
ADD = {"NL": "add_library", "LD": "add_definition", "DP": "add_port", "DC": "add_cable",
       "DI": "add_child", "PQ": "add_pin", "CW": "add_wire"}
REMOVE = {"NL": "remove_library", "LD": "remove_definition", "DP": "remove_port",
          "DC": "remove_cable", "DI": "remove_child", "PQ": "remove_pin", "CW": "remove_wire"}
REMOVE_FROM = {"NL": "remove_libraries_from", "LD": "remove_definitions_from",
               "DP": "remove_ports_from", "DC": "remove_cables_from", "DI": "remove_children_from",
               "PQ": "remove_pins_from", "CW": "remove_wires_from"}
LISTATTR = {"NL": "libraries", "LD": "definitions", "DP": "ports", "DC": "cables", "DI": "children",
            "PQ": "pins", "CW": "wires"}
REL = {"NL": ("N", "L"), "LD": ("L", "D"), "DP": ("D", "P"), "DC": ("D", "C"), "DI": ("D", "I"),
       "PQ": ("P", "Q"), "CW": ("C", "W")}


def expand(nm):
    """name tokens of the form "@N:c" stand for a name of N characters: N-1 times "a" then c"""
    if isinstance(nm, str) and nm.startswith("@") and ":" in nm:
        n, c = nm[1:].split(":", 1)
        return "a" * (int(n) - len(c)) + c
    if isinstance(nm, str) and nm.startswith("#") and ":" in nm:      # as @ but starting with a digit
        n, c = nm[1:].split(":", 1)
        return "1" + "a" * (int(n) - len(c) - 1) + c
    if isinstance(nm, str) and nm.startswith("&") and ":" in nm and nm[1:].split(":", 1)[0].isdigit():   # as @ but starting with &
        n, c = nm[1:].split(":", 1)
        return "&" + "a" * (int(n) - len(c) - 1) + c
    return nm


def _name(nm):
    return None if nm == "" else expand(nm)


def _pinobj(reg, r):
    if r["k"] == "i":
        return reg.get("Q", r["q"])
    inst, ip = reg.get("I", r["i"]), reg.get("Q", r["q"])
    if r["k"] == "p":
        return OuterPin.from_instance_and_inner_pin(inst, ip)
    if r["k"] == "o":
        try:
            return inst.pins[ip]
        except KeyError:
            raise HarnessError("instance %s has no outer pin for inner pin %s" % (r["i"], r["q"]))
    raise HarnessError("cannot build pin argument %r" % (r,))


def _arg_form(items, form):
    """the collection argument of a bulk call: a list, a one-shot iterator over it, or the list with its first
    member named twice"""
    if form == "iter":
        return (x for x in items)
    if form == "dup" and items:
        return list(items) + [items[0]]
    return items


def _do(reg, c):
    """perform the call; returns the list of (kind, object) it returned"""
    op = c["op"]
    if op == "new":
        k = c["kind"]
        obj = CLASS_OF[k]() if k in ("Q", "W") else CLASS_OF[k](name=_name(c["name"]))
        return [(k, obj)]
    if op == "create":
        rel = c["rel"]
        pk, ck = REL[rel]
        p = reg.get(pk, c["p"])
        nm = _name(c.get("name", ""))
        n = c.get("n", 0)
        if rel == "NL":
            return [(ck, p.create_library(name=nm))]
        if rel == "LD":
            return [(ck, p.create_definition(name=nm))]
        if rel == "DP":
            return [(ck, p.create_port(name=nm, pins=n if n else None))]
        if rel == "DC":
            return [(ck, p.create_cable(name=nm, wires=n if n else None))]
        if rel == "PQ":
            return [(ck, p.create_pin())]
        if rel == "CW":
            return [(ck, p.create_wire())]
        raise HarnessError("create " + rel)
    if op == "create_n":
        pk, ck = REL[c["rel"]]
        p = reg.get(pk, c["p"])
        res = p.create_pins(c["n"]) if c["rel"] == "PQ" else p.create_wires(c["n"])
        return [(ck, x) for x in res]
    if op == "create_child":
        p = reg.get("D", c["p"])
        return [("I", p.create_child(name=_name(c["name"]), reference=reg.get("D", c["ref"])))]
    if op in ("add", "remove"):
        pk, ck = REL[c["rel"]]
        p, x = reg.get(pk, c["p"]), reg.get(ck, c["x"])
        if op == "add":
            if c.get("pos", -1) == -1:
                getattr(p, ADD[c["rel"]])(x)
            else:
                getattr(p, ADD[c["rel"]])(x, position=c["pos"])
        else:
            getattr(p, REMOVE[c["rel"]])(x)
        return []
    if op == "remove_from":
        pk, ck = REL[c["rel"]]
        p = reg.get(pk, c["p"])
        getattr(p, REMOVE_FROM[c["rel"]])(_arg_form([reg.get(ck, x) for x in c["xs"]], c.get("form", "list")))
        return []
    if op == "reorder":
        pk, ck = REL[c["rel"]]
        p = reg.get(pk, c["p"])
        setattr(p, LISTATTR[c["rel"]], [reg.get(ck, x) for x in c["seq"]])
        return []
    if op == "connect":
        w = reg.get("W", c["w"])
        pin = _pinobj(reg, c["pin"])
        if c.get("pos", -1) == -1:
            w.connect_pin(pin)
        else:
            w.connect_pin(pin, position=c["pos"])
        return []
    if op == "disconnect":
        reg.get("W", c["w"]).disconnect_pin(_pinobj(reg, c["pin"]))
        return []
    if op == "disconnect_from":
        reg.get("W", c["w"]).disconnect_pins_from(_arg_form([_pinobj(reg, r) for r in c["pins"]], c.get("form", "list")))
        return []
    if op == "reorder_pins":
        reg.get("W", c["w"]).pins = [_pinobj(reg, r) for r in c["seq"]]
        return []
    if op == "set_ref":
        reg.get("I", c["i"]).reference = reg.get("D", c["d"])
        return []
    if op == "set_top":
        reg.get("N", c["n"]).top_instance = reg.get("I", c["i"])
        return []
    if op == "set_top_m":       # the method form with an instance (used by the EBLIF reader)
        reg.get("N", c["n"]).set_top_instance(reg.get("I", c["i"]))
        return []
    if op == "set_top_dm":      # the method form with a definition and a name for the new top instance
        n = reg.get("N", c["n"])
        n.set_top_instance(reg.get("D", c["d"]), instance_name=expand(c["name"]))
        return [("I", n.top_instance)]
    if op == "set_top_def":
        n = reg.get("N", c["n"])
        n.top_instance = reg.get("D", c["d"])
        return [("I", n.top_instance)]
    if op in ("set_item", "del_item", "pop_item", "set_name", "del_name", "set_name_none"):
        e = reg.get(c["kind"], c["x"])
        if op == "set_item":
            if c["key"] == "props":
                # a nested user value: two properties; for every other sibling the first one carries an original
                # name (it is written as a rename construct and followed by a plain property).  The choice depends
                # on the element's position among its siblings, so that two builds of one script agree.
                first = {"identifier": "p", "value": c["val"]}
                sibs = None
                for attr, lst in (("parent", "children"), ("definition", "ports"), ("library", "definitions")):
                    par = getattr(e, attr, None)
                    if par is not None:
                        sibs = list(getattr(par, lst))
                        break
                if sibs is not None and any(x is e for x in sibs) and [x is e for x in sibs].index(True) % 2 == 0:
                    first["original_identifier"] = "P.x"
                e[KEYMAP["props"]] = [first, {"identifier": "q", "value": "w"}]
            else:
                e[KEYMAP[c["key"]]] = expand(c["val"]) if c["key"] == "eid" else c["val"]
        elif op == "del_item":
            del e[KEYMAP[c["key"]]]
        elif op == "pop_item":
            e.pop(KEYMAP[c["key"]])
        elif op == "set_name":
            e.name = expand(c["val"])
        elif op == "set_name_none":
            e.name = None
        else:
            del e.name
        return []
    if op == "set_attr":
        e = reg.get(c["kind"], c["x"])
        setattr(e, {"scalar": "is_scalar", "lower": "lower_index", "downto": "is_downto",
                    "dir": "direction"}[c["key"]], c["val"])
        return []
    if op == "mutate_props":
        reg.get(c["kind"], c["x"])["EDIF.properties"][0]["value"] = c["val"]
        return []
    if op == "drop_prop":
        del reg.get(c["kind"], c["x"])["EDIF.properties"][-1]
        return []
    if op == "set_dir":
        reg.get("P", c["x"]).direction = c["ival"]
        return []
    if op == "set_lower":
        reg.get(c["kind"], c["x"]).lower_index = c["ival"]
        return []
    if op == "set_default":
        sdn.namespace_manager.default = c["val"]
        return []
    if op == "reset":
        return []
    if op == "load_example":
        return [("N", sdn.parse(example_path(c["fmt"], c["name"])))]
    if op in QUERY_OPS:
        return QUERY_OPS[op](reg, c)
    raise HarnessError("unknown op %r" % (op,))


# ------------------------------------------------------------------------------------------------
# queries.  Their observations are left in reg.last_ret / reg.last_info for the trace record.
def _href_from_path(reg, path):
    from spydrnet.util.hierarchical_reference import HRef
    return HRef.from_sequence([reg.get(k, i) for k, i in path])


def _path_of_href(reg, href):
    items = []
    h = href
    while h is not None:
        items.append(h.item)
        h = h.parent
    out = []
    for it in reversed(items):
        k = kind_of(it)
        if k is None:
            out.append(["X", 0])      # e.g. an outer pin used as a hierarchical item
        else:
            out.append([k, reg.id_of(it, k)])
    return out


def _href_info(reg, href, path=None):
    from spydrnet.util.hierarchical_reference import HRef
    path = path if path is not None else _path_of_href(reg, href)
    try:
        items = []
        h = href
        while h is not None:
            items.append(h.item)
            h = h.parent
        other = HRef.from_sequence(list(reversed(items)))
        same, hsh = (other is href), (hash(other) == hash(href) and other == href)
    except Exception:
        same, hsh = False, False
    try:
        valid = bool(href.is_valid)
    except Exception:
        valid = "error"
    try:
        unique = bool(href.is_unique)
    except Exception:
        unique = "error"
    try:
        name = href.name if valid is True else ""
    except Exception:
        name = "<error>"
    return {"h": path, "name": name, "valid": valid, "unique": unique, "same": same, "hash": hsh}


def _q_hq(reg, c):
    import spydrnet as sdn
    fn = getattr(sdn, "get_" + c["fn"])
    root = c["root"]
    if root["t"] == "N":
        obj = reg.get("N", root["id"])
    elif root["t"] == "E":
        obj = reg.get(root["kind"], root["id"])
    elif root["t"] == "S":
        obj = [reg.get(root["kind"], x) for x in root["ids"]]
    elif root["t"] == "M":
        obj = [reg.get("N", root["id"]), reg.get(root["kind"], root["x"])]
    elif root["t"] == "HS":
        obj = [_href_from_path(reg, h) for h in root["hs"]]
    else:
        held = getattr(reg, "held", None) or {}
        obj = held.get(json.dumps(root["h"]))      # the very reference handed out earlier, if the walk holds it
        if obj is None:
            obj = _href_from_path(reg, root["h"])
    kw = {}
    if c.get("sel", "DEFAULT") in ("ALL", "INSIDE", "OUTSIDE", "BOTH"):
        kw["selection"] = c["sel"]
    elif c.get("sel") == "DEFAULT":
        kw["recursive"] = bool(c.get("rec", False))
    if isinstance(obj, list):      # a user's list is asked twice: the recorded answer is the one to the SECOND question
        list(fn(obj, **kw))
    res = list(fn(obj, **kw))
    reg.last_ret = [_path_of_href(reg, h) for h in res]
    reg.last_info = [_href_info(reg, h, p) for h, p in zip(res, reg.last_ret)]
    held = getattr(reg, "held", None)
    if held is not None:          # the walk keeps the references it was handed, like a user would
        for h, p in zip(res, reg.last_ret):
            held.setdefault(json.dumps(p), h)
    return []


def _q_hcheck(reg, c):
    infos = []
    held = getattr(reg, "held", None) or {}
    for path in c["hs"]:
        href = held.get(json.dumps(path)) if c.get("held") else None
        if href is None:
            href = _href_from_path(reg, path)
        infos.append(_href_info(reg, href, path))
    reg.last_ret = []
    reg.last_info = infos
    return []


def _x_uniquify(reg, c):
    from spydrnet.uniquify import uniquify
    uniquify(reg.get("N", c["n"]))
    return []


def _x_flatten(reg, c):
    from spydrnet.flatten import flatten
    flatten(reg.get("N", c["n"]))
    return []


def _render(pat, is_re):
    import re
    out = []
    for tok in pat:
        if tok["t"] == "c":
            # a literal character; as a wildcard pattern, characters that are special to it are written as a class
            out.append(re.escape(tok["c"]) if is_re else ("[" + tok["c"] + "]" if tok["c"] in "*?[" else tok["c"]))
        elif tok["t"] == "1":
            out.append("." if is_re else "?")
        elif tok["t"] == "D":
            out.append("\\D" if is_re else "?")        # one non-digit character
        else:
            out.append(".*" if is_re else "*")
    return "".join(out)


def _elem(reg, x):
    from spydrnet.util.hierarchical_reference import HRef
    if isinstance(x, HRef):
        return _path_of_href(reg, x)
    k = kind_of(x)
    return [k, reg.id_of(x, k)] if k else ["X", 0]


def _value_chars(x, key, hier):
    from spydrnet.util.hierarchical_reference import HRef
    if isinstance(x, HRef):
        v = x.name
    else:
        try:
            v = x[key] if key in x else ""
        except Exception:
            v = ""
    return list(v) if isinstance(v, str) else list(str(v))


def _q_query(reg, c):
    """a filtered query plus the observations C13 relates it to"""
    import spydrnet as sdn
    from spydrnet.global_state import global_service
    fn = getattr(sdn, "get_" + c["fn"])
    hier = c["fn"].startswith("h")
    root = reg.get(c["root"][0], c["root"][1])
    base = {}
    # get_netlists and get_ports take neither a selection nor a recursive argument
    if c["fn"] not in ("netlists", "ports") and not hier:
        base["selection"] = c["sel"]
    if c["fn"] not in ("netlists", "ports"):
        base["recursive"] = bool(c["rec"])
    key = KEYMAP.get(c["key"], c["key"])
    if not hier:
        base["key"] = key
    pats = [_render(p, c["isRe"]) for p in c["pats"]]
    opts = dict(base, is_case=bool(c["isCase"]), is_re=bool(c["isRe"]))
    if c["filt"] == "odd":
        opts["filter"] = lambda e: _elem(reg, e)[-1][-1] % 2 == 1 if isinstance(_elem(reg, e)[-1], list) \
            else _elem(reg, e)[1] % 2 == 1
    ret = [_elem(reg, x) for x in fn(root, patterns=list(pats), **opts)]
    unf_objs = list(fn(root, **base))
    perm = [_elem(reg, x) for x in fn(root, patterns=list(reversed(pats)), **opts)]
    saved = dict(global_service._registered_lookups)
    try:
        global_service._registered_lookups.clear()
        slow = [_elem(reg, x) for x in fn(root, patterns=list(pats), **opts)]
    finally:
        global_service._registered_lookups.update(saved)
    reg.last_ret = ret
    reg.last_info = []
    reg.last_extra = {"unf": [_elem(reg, x) for x in unf_objs],
                      "vals": [_value_chars(x, key, hier) for x in unf_objs],
                      "retPerm": perm, "retSlow": slow, "rendered": pats}
    return []


def _tmpfile(suffix):
    import tempfile
    base = os.environ.get("VERIF_SCRATCH") or tempfile.gettempdir()
    fd, path = tempfile.mkstemp(suffix=suffix, prefix="verif-fmt-", dir=base)
    os.close(fd)
    return path


def _x_edif_read(reg, c):
    """render netlist n of the CURRENT abstract state with the independent writer, parse it with the real reader"""
    import edif_text
    st = project(reg)
    text = edif_text.render(st, c["n"], c.get("opts", {}))
    path = _tmpfile(".edf")
    try:
        with open(path, "w") as f:
            f.write(text)
        default_before = sdn.namespace_manager.default
        new = sdn.parse(path)
        reg.last_extra = {"policy_before": _val(default_before), "policy_after": _val(sdn.namespace_manager.default),
                          "text_len": len(text)}
    finally:
        os.unlink(path)
    return [("N", new)]


def _x_edif_rt(reg, c):
    """write netlist n with the real writer, read the file with the independent reader and the real reader"""
    import edif_text
    path = _tmpfile(".edf")
    extra = {}
    try:
        sdn.compose(reg.get("N", c["n"]), path)
        with open(path) as f:
            text = f.read()
        try:
            extra["filecanon"] = edif_text.read_canon(text)
            extra["file_readable"] = True
        except Exception as e:
            extra["file_readable"] = False
            extra["file_error"] = "%s: %s" % (type(e).__name__, e)
        try:
            new = sdn.parse(path)
            extra["reader_accepts"] = True
        except CallTimeout:
            raise
        except Exception as e:
            new = None
            extra["reader_accepts"] = False
            extra["reader_error"] = "%s: %s" % (type(e).__name__, str(e)[:200])
        n0 = reg.get("N", c["n"])
        elems = {"L": list(n0.libraries)}
        elems["D"] = [d for l in elems["L"] for d in l.definitions]
        elems["P"] = [p for d in elems["D"] for p in d.ports]
        elems["C"] = [x for d in elems["D"] for x in d.cables]
        elems["I"] = [i for d in elems["D"] for i in d.children]
        idc = {}
        for k, lst in elems.items():
            arr = [[] for _ in range(reg.count(k))]
            for e in lst:
                v = e["EDIF.identifier"] if "EDIF.identifier" in e else ""
                arr[reg.id_of(e, k) - 1] = list(v) if isinstance(v, str) else ["?"]
            idc[k] = arr
        extra["idc"] = idc
        extra["policy_after"] = _val(sdn.namespace_manager.default)
        if extra["policy_after"] != "DEFAULT":      # a failed parse may leave the policy switched (C15): do not
            sdn.namespace_manager.default = "DEFAULT"   # let it distort the rest of this behaviour
    finally:
        if os.path.exists(path):
            os.unlink(path)
    reg.last_extra = extra
    return [("N", new)] if new is not None else []


EXAMPLE_DIRS = {"edif": ("EDIF_netlists", ".edf.zip"), "vlog": ("verilog_netlists", ".v.zip"),
                "eblif": ("eblif_netlists", ".eblif.zip")}


def example_path(fmt, name):
    d, ext = EXAMPLE_DIRS[fmt]
    return os.path.join(os.environ["EXAMPLE_NETLISTS_PATH"], d, name + ext)


def example_names(fmt):
    d, ext = EXAMPLE_DIRS[fmt]
    base = os.path.join(os.environ["EXAMPLE_NETLISTS_PATH"], d)
    return sorted(f[:-len(ext)] for f in os.listdir(base) if f.endswith(ext) and os.path.getsize(os.path.join(base, f)) > 0)


def _x_edif_file_read(reg, c):
    """a bundled .edf example: the text is read by the independent reader and by the real reader"""
    import edif_text
    import zipfile
    extra = {}
    path = example_path("edif", c["name"])
    with zipfile.ZipFile(path) as z:
        text = z.read(z.namelist()[0]).decode("utf-8", "replace")
    try:
        extra["filecanon"] = edif_text.read_canon(text)
        extra["file_readable"] = True
    except Exception as e:
        extra["file_readable"] = False
        extra["file_error"] = "%s: %s" % (type(e).__name__, str(e)[:200])
    new = sdn.parse(path)
    reg.last_extra = extra
    return [("N", new)]


def _x_file_read(reg, c):
    """a bundled .v / .eblif example read by the real reader (accepted, well-formed, self-contained)"""
    new = sdn.parse(example_path(c["fmt"], c["name"]))
    reg.last_extra = {}
    return [("N", new)]


def _x_vlog_read(reg, c):
    """render netlist n of the current abstract state as Verilog with the independent writer, parse it"""
    import verilog_text
    st = project(reg)
    try:
        text = verilog_text.render(st, c["n"], c.get("opts", {}))
    except verilog_text.Unrenderable as e:
        raise HarnessError("design not expressible in Verilog: %s" % e)
    path = _tmpfile(".v")
    try:
        with open(path, "w") as f:
            f.write(text)
        new = sdn.parse(path)
        reg.last_extra = {"policy_after": _val(sdn.namespace_manager.default), "text_len": len(text)}
    finally:
        os.unlink(path)
    return [("N", new)]


def _x_vlog_rt(reg, c):
    """write netlist n with the real Verilog writer, read the file back with the real reader"""
    path = _tmpfile(".v")
    extra = {}
    new = None
    try:
        sdn.compose(reg.get("N", c["n"]), path, **{k: v for k, v in (c.get("copts") or {}).items()})
        try:
            new = sdn.parse(path)
            extra["reader_accepts"] = True
        except CallTimeout:
            raise
        except Exception as e:
            extra["reader_accepts"] = False
            extra["reader_error"] = "%s: %s" % (type(e).__name__, str(e)[:200])
    finally:
        if os.path.exists(path):
            os.unlink(path)
    reg.last_extra = extra
    return [("N", new)] if new is not None else []


def _x_eblif_read(reg, c):
    """render netlist n of the current abstract state as EBLIF with the independent writer, parse it"""
    import eblif_text
    st = project(reg)
    try:
        text = eblif_text.render(st, c["n"], c.get("opts", {}))
    except eblif_text.Unrenderable as e:
        raise HarnessError("design not expressible in EBLIF: %s" % e)
    path = _tmpfile(".eblif")
    try:
        with open(path, "w") as f:
            f.write(text)
        new = sdn.parse(path)
        reg.last_extra = {"policy_after": _val(sdn.namespace_manager.default), "text_len": len(text)}
    finally:
        os.unlink(path)
    return [("N", new)]


def _x_eblif_rt(reg, c):
    """write netlist n with the real EBLIF writer, read the file back with the real reader"""
    path = _tmpfile(".eblif")
    extra = {}
    new = None
    try:
        sdn.compose(reg.get("N", c["n"]), path)
        try:
            new = sdn.parse(path)
            extra["reader_accepts"] = True
        except CallTimeout:
            raise
        except Exception as e:
            extra["reader_accepts"] = False
            extra["reader_error"] = "%s: %s" % (type(e).__name__, str(e)[:200])
    finally:
        if os.path.exists(path):
            os.unlink(path)
    reg.last_extra = extra
    return [("N", new)] if new is not None else []


def _mask_timestamp(text):
    import re
    text = re.sub(r"\(timeStamp[^)]*\)", "(timeStamp)", text)
    return "\n".join(l for l in text.split("\n") if "Generated" not in l or not l.lstrip().startswith(("//", "#")))


def _x_compose2(reg, c):
    """compose netlist n twice in the given format with the given options (queries in between) and observe
    the two texts, completeness and closedness of the output file"""
    import hashlib
    n = reg.get("N", c["n"])
    ext = {"edif": ".edf", "verilog": ".v", "eblif": ".eblif"}[c["fmt"]]
    kw = {k: v for k, v in (c.get("opts") or {}).items() if k in ("write_blackbox", "write_eblif_cname", "defparam")}
    if (c.get("opts") or {}).get("definition_list"):
        top = n.top_instance.reference if n.top_instance is not None else None
        kw["definition_list"] = [top.name] if top is not None else []
    p1, p2 = _tmpfile(ext), _tmpfile(ext)
    extra = {}
    try:
        sdn.compose(n, p1, **kw)
        with open(p1) as f:
            t1 = f.read()
        extra["closed"] = not any(os.path.realpath(os.path.join("/proc/self/fd", fd)) == os.path.realpath(p1)
                                  for fd in os.listdir("/proc/self/fd")
                                  if os.path.exists(os.path.join("/proc/self/fd", fd)))
        # read-only queries between the two writes
        list(sdn.get_instances(n)), list(sdn.get_definitions(n)), list(sdn.get_hwires(n, recursive=True))
        sdn.compose(n, p2, **kw)
        with open(p2) as f:
            t2 = f.read()
        extra["hash1"] = hashlib.sha256(_mask_timestamp(t1).encode()).hexdigest()[:16]
        extra["hash2"] = hashlib.sha256(_mask_timestamp(t2).encode()).hexdigest()[:16]
        # the method form, three times: default options, the given options, default options again - the first
        # and the third text must be the same (an option given to one call is not remembered for the next)
        texts = []
        for k3 in ({}, kw, {}):
            n.compose(p2, **k3)
            with open(p2) as f:
                texts.append(hashlib.sha256(_mask_timestamp(f.read()).encode()).hexdigest()[:16])
        extra["hash_m1"], extra["hash_mk"], extra["hash_m3"] = texts
        complete = True
        try:
            if c["fmt"] == "edif":
                import edif_text
                edif_text.read_canon(t1)
            elif kw.get("definition_list") or kw.get("write_blackbox") is False:
                complete = t1.rstrip().endswith(("endmodule", ".end")) or t1.strip() == ""
            else:
                sdn.parse(p1)
        except CallTimeout:
            raise
        except Exception as e:
            complete = False
            extra["incomplete_because"] = "%s: %s" % (type(e).__name__, str(e)[:150])
        extra["complete"] = complete
        if _val(sdn.namespace_manager.default) != "DEFAULT":
            sdn.namespace_manager.default = "DEFAULT"
    finally:
        for p in (p1, p2):
            if os.path.exists(p):
                os.unlink(p)
    reg.last_ret = []
    reg.last_info = []
    reg.last_extra = extra
    return []


_TOKENS = {"edif": r'\(|\)|"[^"]*"|[^\s()"]+', "verilog": r'\\\S+ |`\w+|\w+\'[bdhBDH]\w+|\w+|\S', "eblif": r"[^ \t\n]+|\n"}
_REFKW = {"edif": {"cellref", "libraryref", "portref", "instanceref", "member", "viewref"},
          "verilog": set(), "eblif": set()}
_PROBE_BASE = []


def _probe():
    """a fixed script whose observable behaviour depends on the process-wide naming policy"""
    out = []
    try:
        n = sdn.Netlist(name="probe")
        lib = n.create_library(name="l")
        a = lib.create_definition(name="a")
        b = lib.create_definition(name="b")
        out.append(str(n[".NS"]))
        for e, v in ((a, "x"), (b, "X")):
            try:
                e["EDIF.identifier"] = v
                out.append("ok")
            except Exception as ex:
                out.append(type(ex).__name__)
        out.append(str(sdn.namespace_manager.default))
        path = _tmpfile(".edf")
        try:
            with open(path, "w") as f:
                f.write(_GOOD_EDIF)
            g = sdn.parse(path)
            top = g.top_instance
            out.append("good:%s/%s/%d" % (top.name if top is not None else None,
                                          top.reference.name if top is not None and top.reference is not None else None,
                                          len(g.libraries)))
        finally:
            os.unlink(path)
        out.append(str(sdn.namespace_manager.default))
    except Exception as ex:
        out.append("probe failed: " + type(ex).__name__)
    return "|".join(out)


_GOOD_EDIF = """(edif good (edifVersion 2 0 0) (edifLevel 0) (keywordMap (keywordLevel 0))
 (library lib (edifLevel 0) (technology (numberDefinition))
  (cell leaf (cellType GENERIC) (view netlist (viewType NETLIST) (interface (port i (direction INPUT)))))
  (cell top (cellType GENERIC) (view netlist (viewType NETLIST) (interface (port p (direction INPUT)))
    (contents (instance u (viewRef netlist (cellRef leaf (libraryRef lib))))
              (net n (joined (portRef p) (portRef i (instanceRef u))))))))
 (design top (cellRef top (libraryRef lib))))
"""


def mutate_text(fmt, text, kind, idx):
    """one corruption of a valid text.  idx is a position in 400ths of the token sequence."""
    import re
    toks = re.findall(_TOKENS[fmt], text)
    n = len(toks)
    if kind == "crosslib":
        # a cellRef redirected to another DECLARED library that does not declare that cell (or its libraryRef
        # deleted where the surrounding library does not declare it): every such text has a dangling reference
        if fmt != "edif":
            return None, n
        cells, cur = {}, None
        for i, t in enumerate(toks[:-2]):
            if t == "(" and toks[i + 1].lower() in ("library", "external"):
                cur = toks[i + 2] if toks[i + 2] != "(" else toks[i + 4]
                cells.setdefault(cur.lower(), set())
            elif t == "(" and toks[i + 1].lower() == "cell" and cur is not None:
                cid = toks[i + 2] if toks[i + 2] != "(" else toks[i + 4]
                cells[cur.lower()].add(cid.lower())
        cases, cur = [], None
        for i, t in enumerate(toks[:-6]):
            if t == "(" and toks[i + 1].lower() in ("library", "external"):
                cur = (toks[i + 2] if toks[i + 2] != "(" else toks[i + 4]).lower()
            if t == "(" and toks[i + 1].lower() == "cellref" and toks[i + 3] == "(" and toks[i + 4].lower() == "libraryref":
                cid, lib = toks[i + 2].lower(), toks[i + 5]
                for other in sorted(cells):
                    if other != lib.lower() and cid not in cells[other]:
                        cases.append(("redirect", i + 5, other))
                if cur is not None and cur != lib.lower() and cid not in cells.get(cur, set()):
                    cases.append(("drop", i + 3, None))
        if not cases or idx >= len(cases):
            return None, n
        what, pos, other = cases[idx]
        if what == "redirect":
            toks[pos] = other
        else:
            del toks[pos:pos + 4]          # ( libraryRef L )
    elif kind == "sibling":
        # the identifier of an instance replaced by the identifier of ANOTHER instance of the same text
        if fmt != "edif":
            return None, n
        pos_ids = []
        for i, t in enumerate(toks[:-3]):
            if t == "(" and toks[i + 1].lower() == "instance":
                pos_ids.append(i + 2 if toks[i + 2] != "(" else i + 4)      # plain identifier or (rename id "name")
        pairs = [(a, b) for a in range(len(pos_ids)) for b in range(len(pos_ids)) if a != b]     # every ordered pair
        if idx >= len(pairs):
            return None, n
        toks[pos_ids[pairs[idx][0]]] = toks[pos_ids[pairs[idx][1]]]
    elif kind == "dangle_name":
        # a reference that spells the ORIGINAL NAME of a renamed element instead of its identifier: (rename id_zn "zn")
        # is declared, (portRef zn ...) is written - zn is declared nowhere, the reference dangles
        if fmt != "edif":
            return None, n
        renamed, ids = {}, set()
        for i, t in enumerate(toks[:-3]):
            if t == "(" and toks[i + 1].lower() == "rename":
                renamed[toks[i + 2].lower()] = toks[i + 3].strip('"')
                ids.add(toks[i + 2].lower())
        cases = []
        for i, t in enumerate(toks[:-1]):
            if t.lower() in _REFKW[fmt] and t.lower() != "member" and toks[i + 1].lower() in renamed:
                nm = renamed[toks[i + 1].lower()]
                if re.match(r"^[A-Za-z][A-Za-z0-9_]*$", nm) and nm.lower() not in ids:
                    cases.append((i + 1, nm))
        if idx >= len(cases):
            return None, n
        toks[cases[idx][0]] = cases[idx][1]
    elif kind == "dangle":
        refs = [i + 1 for i, t in enumerate(toks[:-1]) if t.lower() in _REFKW[fmt] and toks[i + 1] not in ("(", ")")]
        if not refs:
            return None, n
        pos = refs[idx % len(refs)]
        toks[pos] = "never_declared_zz"
    else:
        pos = min(n - 1, (idx * n) // 400)
        if kind == "trunc":
            toks = toks[:pos]
        elif kind == "del":
            del toks[pos]
        elif kind == "dup":
            toks.insert(pos, toks[pos])
        elif kind == "repl":
            toks[pos] = "zz9"
        elif kind == "illegal":
            toks[pos] = "q-x"          # not a legal identifier in any of the formats' naming rules
    sep = " " if fmt != "eblif" else " "
    return sep.join(toks) + "\n", n


def _x_parse_text(reg, c):
    """parse one corrupted (or, with kind = none, the valid) rendering of netlist n and observe the outcome,
    the naming policy before/after and the behaviour of a fixed probe script afterwards"""
    import edif_text
    import verilog_text
    import eblif_text
    st = project(reg)
    fmt = c["fmt"]
    rnd = {"edif": edif_text, "verilog": verilog_text, "eblif": eblif_text}[fmt]
    base = rnd.render(st, c["n"], {"rename": True} if c["kind"] == "dangle_name" else {})
    if c["kind"] == "none":
        text, ntok = base, 0
    else:
        text, ntok = mutate_text(fmt, base, c["kind"], c["idx"])
        if text is None:
            raise HarnessError("no such token")
    if not _PROBE_BASE:
        _PROBE_BASE.append(_probe())
    path = _tmpfile({"edif": ".edf", "verilog": ".v", "eblif": ".eblif"}[fmt])
    pol = c.get("pol", "DEFAULT")          # the policy that is active when the reader is called
    sdn.namespace_manager.default = pol
    extra = {"policy_before": _val(sdn.namespace_manager.default), "ntok": ntok, "same_text": text == base}
    new = None
    import signal
    try:
        with open(path, "w") as f:
            f.write(text)
        try:
            new = sdn.parse(path)
            extra["parse"] = "ok"
        except CallTimeout:
            extra["parse"] = "timeout"
        except Exception as e:
            extra["parse"] = "raised"
            extra["raised"] = type(e).__name__
        except BaseException as e:      # e.g. SystemExit from a tokenizer
            extra["parse"] = "raised"
            extra["raised"] = type(e).__name__
    finally:
        if os.path.exists(path):
            os.unlink(path)
    extra["policy_after"] = _val(sdn.namespace_manager.default)
    # the same text handed to the reader a second time in the same process must meet the same fate
    if extra["parse"] != "timeout":
        sdn.namespace_manager.default = pol
        path2 = _tmpfile({"edif": ".edf", "verilog": ".v", "eblif": ".eblif"}[fmt])
        try:
            with open(path2, "w") as f:
                f.write(text)
            try:
                sdn.parse(path2)
                extra["parse2"] = "ok"
            except CallTimeout:
                extra["parse2"] = "timeout"
            except BaseException as e:
                extra["parse2"] = "raised"
                extra["raised2"] = type(e).__name__
        finally:
            if os.path.exists(path2):
                os.unlink(path2)
        if _val(sdn.namespace_manager.default) != pol and extra["policy_after"] == extra["policy_before"]:
            extra["policy_after"] = _val(sdn.namespace_manager.default)
    if extra["policy_after"] == extra["policy_before"]:
        sdn.namespace_manager.default = "DEFAULT"     # the probe's reference behaviour was taken under DEFAULT
    extra["probe_same"] = (_probe() == _PROBE_BASE[0])
    sdn.namespace_manager.default = "DEFAULT"         # do not let one failure distort the next case
    reg.last_extra = extra
    return [("N", new)] if new is not None else []


def _x_compare(reg, c):
    from spydrnet.compare.compare_netlists import Comparer
    import io
    import contextlib
    raises, exc = False, ""
    try:
        with contextlib.redirect_stdout(io.StringIO()):
            Comparer(reg.get("N", c["a"]), reg.get("N", c["b"])).compare()
    except CallTimeout:
        raise
    except BaseException as e:      # AssertionError, StopIteration, AttributeError ... all count as "raises"
        raises, exc = True, type(e).__name__
    reg.last_ret = []
    reg.last_info = []
    reg.last_extra = {"raises": raises, "raised": exc}
    return []


def _x_clone(reg, c):
    obj = reg.get(c["kind"], c["x"])
    new = obj.clone()
    reg.pending_ret = (c["kind"], new)
    return [(c["kind"], new)]


QUERY_OPS = {"file_read": _x_file_read, "edif_file_read": _x_edif_file_read, "parse_text": _x_parse_text, "compose2": _x_compose2, "eblif_read": _x_eblif_read, "eblif_rt": _x_eblif_rt, "vlog_read": _x_vlog_read, "vlog_rt": _x_vlog_rt, "edif_read": _x_edif_read, "edif_rt": _x_edif_rt, "compare": _x_compare, "q": _q_query, "clone": _x_clone, "hq": _q_hq, "hcheck": _q_hcheck, "uniquify": _x_uniquify, "flatten": _x_flatten}


class CallTimeout(Exception):
    pass


def _alarm(signum, frame):
    raise CallTimeout()


CALL_TIMEOUT_S = int(os.environ.get("VERIF_CALL_TIMEOUT", "20"))


def execute(reg, c):
    """run one call on the implementation.  Returns (outcome, exception class name or '').
    Objects returned by creating calls are bound to the next ids of their kind (the
    specification allocates ids in the same order)."""
    import signal
    reg.last_ret = reg.last_info = None
    reg.last_extra = None
    old = signal.signal(signal.SIGALRM, _alarm)
    signal.alarm(CALL_TIMEOUT_S)
    try:
        created = _do(reg, c)
    except HarnessError:
        raise
    except CallTimeout:
        return "timeout", "CallTimeout"
    except Exception as e:  # the call was refused by spydrnet
        return "refused", type(e).__name__
    finally:
        signal.alarm(0)
        signal.signal(signal.SIGALRM, old)
    for kind, obj in created:
        if obj is not None:
            reg.bind(kind, obj)
    if c["op"] in ("clone", "file_read", "edif_file_read", "edif_read", "edif_rt", "vlog_read", "vlog_rt", "eblif_read", "eblif_rt", "parse_text"):
        reg.last_ret = [reg.id_of(created[0][1], created[0][0])] if created else []
        reg.last_info = []
    return "ok", ""


import random as _random  # noqa: E402
ACTIVE_LISTENERS = []
LISTENER_ERRORS = []
PAD_COUNTER = [0]


def fresh(listeners=""):
    """fresh process-wide state for a new behaviour.  listeners: "" (none), "A" (the mirror),
    "AB" / "BA" (mirror and a passive listener registered in that order), "C" / "D" / "S" (partial listeners
    that override only wire_connect_pin / only wire_disconnect_pin / only dictionary_set)"""
    sdn.namespace_manager.default = "DEFAULT"
    while ACTIVE_LISTENERS:
        lst = ACTIVE_LISTENERS.pop()
        try:
            lst.deregister_all_listeners()
        except Exception as e:       # removing a listener must never fail: recorded as an observation (C19_Transparent)
            LISTENER_ERRORS.append("deregister_all_listeners of %s raised %s" % (type(lst).__name__, type(e).__name__))
            from spydrnet.global_state import global_callback as _gc
            for nm in dir(_gc):
                if nm.startswith("_container_"):
                    cont = getattr(_gc, nm)
                    for m in [m for m in list(cont) if getattr(m, "__self__", None) is lst]:
                        try:
                            cont.remove(m)
                        except Exception:
                            pass
    reg = Registry()
    reg.mirror = None
    # vary the memory layout from one behaviour to the next: code that iterates Python sets of elements
    # (reference sets, dependency sets) sees them in an order that depends on object addresses
    PAD_COUNTER[0] += 1
    reg._pad = [bytearray(40 + 8 * ((PAD_COUNTER[0] * 7 + j) % 9)) for j in range(PAD_COUNTER[0] % 11)]
    if listeners:
        import mirror
        for ch in listeners:
            if ch == "A":
                reg.mirror = mirror.MirrorListener()
                ACTIVE_LISTENERS.append(reg.mirror)
            elif ch == "C":
                ACTIVE_LISTENERS.append(mirror.ConnectOnlyListener())
            elif ch == "D":
                ACTIVE_LISTENERS.append(mirror.DisconnectOnlyListener())
            elif ch == "S":
                ACTIVE_LISTENERS.append(mirror.DataOnlyListener())
            else:
                ACTIVE_LISTENERS.append(mirror.PassiveListener())
    return reg


def _known(reg, obj):
    """id of an element the registry knows; 0 for None and for an object that exists nowhere in the
    projected state (the orphan of a refused create_X) - announcements must not make it known"""
    if obj is None:
        return 0
    ent = reg.ids.get(id(obj))
    return ent[1] if ent is not None else 0


def ann_records(reg, ann):
    """the announcements of one call in the specification's vocabulary:
    [ev, late, rep, k1, a, k2, b, key, val] - element arguments as (kind, id), pins as pin references"""
    inv = {v: k for k, v in KEYMAP.items()}
    out = []
    for a in ann:
        r = {"ev": a["ev"], "late": a["late"], "rep": a["rep"], "k1": "", "a": 0, "k2": "", "b": 0,
             "pin": {"k": "-", "i": 0, "q": 0}, "key": "", "val": ""}
        args = a.get("args", ())
        if args:
            r["k1"], r["a"] = kind_of(args[0]) or "?", _known(reg, args[0])
        if a["ev"].startswith("dictionary_"):
            r["key"] = inv.get(args[1], str(args[1]))
            if len(args) > 2:
                r["val"] = _props(args[2]) if args[1] == "EDIF.properties" else _val(args[2])
        elif a["ev"].startswith("wire_") and len(args) > 1:
            # what the pin was when it was announced (an outer pin may be detached by now)
            if isinstance(args[1], InnerPin):
                r["pin"] = {"k": "i", "i": 0, "q": _known(reg, args[1])}
            elif len(args) > 3 and args[2] is not None and args[3] is not None:
                r["pin"] = {"k": "o", "i": _known(reg, args[2]), "q": _known(reg, args[3])}
            else:
                r["pin"] = {"k": "x", "i": 0, "q": 0}
        elif len(args) > 1:
            r["k2"], r["b"] = (kind_of(args[1]) or "?", _known(reg, args[1])) if args[1] is not None else ("", 0)
        out.append(r)
    return out


def project_mirror(reg):
    """the mirror listener's copy, in registry ids (objects the registry does not know are -1)"""
    ml = reg.mirror

    def rid(objid):
        ent = reg.ids.get(objid)
        return ent[1] if ent else -1

    def rid_kind(obj, kind):
        if obj is None:
            return 0
        ent = reg.ids.get(id(obj))
        return ent[1] if ent and ent[0] == kind else -1

    m = {"rel": {}, "conn": []}
    for rn, pairs in ml.rel.items():
        out = []
        for p, x in pairs:
            a, b = rid(p), rid(x)
            if a == -1 and b == -1:
                continue
            out.append([a, b])
        m["rel"][rn] = sorted(out)
    conn = []
    for w, p in ml.conn:
        a = rid(w)
        if a == -1:
            continue
        conn.append({"w": a, "r": _pinref(reg, ml.objs[p])})
    m["conn"] = sorted(conn, key=lambda e: json.dumps(e, sort_keys=True))
    m["ref"] = [rid_kind(ml.ref.get(id(i), None), "D") for i in reg.objs["I"]]
    m["top"] = [rid_kind(ml.top.get(id(n), None), "I") for n in reg.objs["N"]]

    def drec(e):
        d = ml.data.get(id(e), {})
        other = {k: d[k] for k in d if k not in MODELLED_KEYS}
        rec = {"name": _val(d[".NAME"]) if ".NAME" in d else "",
               "eid": _val(d["EDIF.identifier"]) if "EDIF.identifier" in d else "",
               "ns": _val(d[".NS"]) if ".NS" in d else "", "k": _val(d["k"]) if "k" in d else "",
               "props": _props(d["EDIF.properties"]) if "EDIF.properties" in d else "", "vattr": _vattr(d),
               "eb": _eb(d)}
        if other:
            rec["other"] = json.dumps(other, sort_keys=True, default=repr)
        return rec
    m["data"] = {k: [drec(e) for e in reg.objs[k]] for k in ("N", "L", "D", "P", "C", "I")}
    return m


def build(calls, listeners=""):
    """replay a call history on fresh objects; returns the registry"""
    reg = fresh(listeners)
    rnd = _random.Random(PAD_COUNTER[0])
    for c in calls:
        # junk of varying size classes between the calls shifts the addresses of the elements created next
        reg._pad.append([[0] * rnd.randint(0, 40), {}, set(), bytearray(rnd.randint(1, 300)), object()]
                        [:rnd.randint(0, 5)])
        execute(reg, c)
        # creating calls may create more than they return (pins of a new port, a whole clone ...):
        # adopt them in the canonical walk order right away so ids follow creation order
        if c["op"] in ("create", "create_n", "create_child", "set_top_def", "set_top_dm", "new", "clone", "uniquify", "seq", "load_example"):
            adopt(reg)
    return reg
