"""An EDIF 2 0 0 writer and reader that are independent of spydrnet (trusted base of C03/C05/C17).

render(state, n, opts)   abstract design (the specification's state record, netlist n)  ->  EDIF text
read_canon(text)         EDIF text  ->  the canonical design in the shape of spec/Fmt.tla Canon(s, n, TRUE)

Neither uses spydrnet's composer, parser or tokenizer.
"""
import re

DIR = {0: None, 1: "INOUT", 2: "INPUT", 3: "OUTPUT"}
DIR_BACK = {"INOUT": 1, "INPUT": 2, "OUTPUT": 3}


# ------------------------------------------------------------------------------------------------
# writer
def _deps_order(st, n):
    """libraries and cells in an order in which every cell is declared before it is used"""
    libs = st["nlLibs"][n - 1]
    lib_of = {}
    for lib in libs:
        for d in st["libDefs"][lib - 1]:
            lib_of[d] = lib
    uses = {d: [st["instRef"][i - 1] for i in st["defKids"][d - 1] if st["instRef"][i - 1]] for d in lib_of}
    lib_uses = {lib: set() for lib in libs}
    for d, us in uses.items():
        for u in us:
            if u in lib_of and lib_of[u] != lib_of[d]:
                lib_uses[lib_of[d]].add(lib_of[u])
    order_libs, seen = [], set()

    def visit_lib(x):
        if x in seen:
            return
        seen.add(x)
        for y in sorted(lib_uses[x]):
            visit_lib(y)
        order_libs.append(x)
    for lib in libs:
        visit_lib(lib)
    cells = {}
    for lib in libs:
        out, done = [], set()

        def visit(d, lib=lib, out=out, done=done):
            if d in done:
                return
            done.add(d)
            for u in uses[d]:
                if lib_of.get(u) == lib:
                    visit(u)
            out.append(d)
        for d in st["libDefs"][lib - 1]:
            visit(d)
        cells[lib] = out
    return order_libs, cells


def render(st, n, opts=None):
    opts = opts or {}
    rename = opts.get("rename", False)
    upper_refs = opts.get("case") == "upper"
    bitorder = opts.get("bitorder", "asc")
    comments = opts.get("comments", False)
    skip_empty = opts.get("skip_empty", False)

    def ident(name):
        legal = re.sub(r"[^A-Za-z0-9_]", "_", name)       # q[1] -> q_1_
        # identifiers are compared ignoring case: Core and core need different ones (Core -> c9ore)
        legal = re.sub(r"[A-Z]", lambda m: m.group(0).lower() + "9", legal)
        return ("id_" + legal) if rename else legal

    def decl(name):
        return '(rename %s "%s")' % (ident(name), name) if (rename or ident(name) != name) else name

    def ref(name):
        s = ident(name)
        return s.upper() if upper_refs else s

    out = []
    w = out.append
    nl_name = st["nlData"][n - 1]["name"] or "netlist"
    w("(edif %s" % decl(nl_name))
    w("  (edifVersion 2 0 0)\n  (edifLevel 0)\n  (keywordMap (keywordLevel 0))")
    w('  (status (written (timeStamp 2020 1 1 0 0 0) (program "verif" (version "1"))'
      + (' (comment "rendered by conform/edif_text.py")' if comments else "") + "))")
    order_libs, cells = _deps_order(st, n)
    for lib in order_libs:
        w("  (library %s\n    (edifLevel 0)\n    (technology (numberDefinition))" % decl(st["libData"][lib - 1]["name"]))
        for d in cells[lib]:
            w("    (cell %s (cellType GENERIC)" % decl(st["defData"][d - 1]["name"]))
            if comments:
                w('      (comment "a cell")')
            w("      (view netlist (viewType NETLIST)\n        (interface")
            for p in st["defPorts"][d - 1]:
                a = st["portAttr"][p - 1]
                pname = st["portData"][p - 1]["name"]
                width = len(st["portPins"][p - 1])
                is_array = width > 1 or not a["scalar"]
                dirs = (" (direction %s)" % DIR[a["dir"]]) if DIR[a["dir"]] else ""
                if is_array:
                    w("          (port (array %s %d)%s)" % (decl(pname), width, dirs))
                else:
                    w("          (port %s%s)" % (decl(pname), dirs))
            w("        )")
            kids = st["defKids"][d - 1]
            cabs = st["defCables"][d - 1]
            if kids or cabs:
                w("        (contents")
                # option swapids: the instances of a cell exchange identifiers cyclically - instance "u" is written
                # (rename id_of_v "u") and so on; every reference uses the identifier, so the design is the same
                inst_ident = {}
                if opts.get("swapids") and len(kids) >= 2:
                    names = [st["instData"][i - 1]["name"] for i in kids]
                    for j, i in enumerate(kids):
                        inst_ident[i] = ident(names[(j + 1) % len(kids)])
                for i in kids:
                    r = st["instRef"][i - 1]
                    props = st["instData"][i - 1].get("props", "")
                    ptxt = ""
                    if props:
                        tok = props.split("#")[0]
                        cnt = int(props.split("#")[1]) if "#" in props else 2
                        plist = [("p", tok), ("q", "w")][:cnt]
                        ptxt = "".join(' (property %s (string "%s"))' %
                                       ((decl(k) if j == 0 else k), v) for j, (k, v) in enumerate(plist))
                    # with comments on: an EMPTY comment construct ahead of the properties, a non-empty one after them
                    w("          (instance %s (viewRef netlist (cellRef %s (libraryRef %s)))%s%s%s)" %
                      (('(rename %s "%s")' % (inst_ident[i], st["instData"][i - 1]["name"])) if i in inst_ident
                       else decl(st["instData"][i - 1]["name"]), ref(st["defData"][r - 1]["name"]),
                       ref(st["libData"][st["defLib"][r - 1] - 1]["name"]),
                       " (comment)" if comments else "", ptxt, ' (comment "an instance")' if comments else ""))
                for c in cabs:
                    a = st["cabAttr"][c - 1]
                    cname = st["cabData"][c - 1]["name"]
                    wires = st["cabWires"][c - 1]
                    is_array = len(wires) > 1 or not a["scalar"]
                    idxs = list(range(len(wires)))
                    if bitorder == "desc":
                        idxs.reverse()
                    elif bitorder == "mixed":
                        idxs = idxs[1::2] + idxs[0::2]
                    for k in idxs:
                        eps = []
                        for r in st["wirePins"][wires[k] - 1]:
                            q = r["q"]
                            p = st["pinPort"][q - 1]
                            pa = st["portAttr"][p - 1]
                            pw = len(st["portPins"][p - 1])
                            bit = st["portPins"][p - 1].index(q)
                            pname = ref(st["portData"][p - 1]["name"])
                            pr = ("(member %s %d)" % (pname, bit)) if (pw > 1 or not pa["scalar"]) else pname
                            if r["k"] == "o":
                                iref = inst_ident[r["i"]] if r["i"] in inst_ident else ident(st["instData"][r["i"] - 1]["name"])
                                eps.append("(portRef %s (instanceRef %s))" % (pr, iref.upper() if upper_refs else iref))
                            else:
                                eps.append("(portRef %s)" % pr)
                        if skip_empty and not eps and is_array and 0 < k < len(wires) - 1:
                            continue
                        if is_array:
                            idx = a["lower"] + k
                            w('          (net (rename %s_%d_ "%s[%d]") (joined %s))' %
                              (ident(cname), idx, cname, idx, " ".join(eps)))
                        else:
                            w("          (net %s (joined %s))" % (decl(cname), " ".join(eps)))
                w("        )")
            w("      )\n    )")
        w("  )")
    t = st["nlTop"][n - 1]
    if t:
        d = st["instRef"][t - 1]
        w("  (design %s (cellRef %s (libraryRef %s)))" %
          (decl(st["defData"][d - 1]["name"]), ref(st["defData"][d - 1]["name"]),
           ref(st["libData"][st["defLib"][d - 1] - 1]["name"])))
    w(")")
    return "\n".join(out) + "\n"


# ------------------------------------------------------------------------------------------------
# reader
TOKEN = re.compile(r'\(|\)|"(?:[^"])*"|[^\s()"]+')


def _sexpr(text):
    toks = TOKEN.findall(text)
    pos = 0

    def parse():
        nonlocal pos
        t = toks[pos]
        pos += 1
        if t == "(":
            lst = []
            while toks[pos] != ")":
                lst.append(parse())
            pos += 1
            return lst
        if t == ")":
            raise ValueError("unbalanced )")
        return t
    tree = parse()
    if pos != len(toks):
        raise ValueError("trailing tokens")
    return tree


def _kw(x):
    return x[0].lower() if isinstance(x, list) and x and isinstance(x[0], str) else None


def _name(x):
    """(identifier, original name) of a nameDef"""
    if isinstance(x, list) and _kw(x) == "rename":
        return x[1], x[2].strip('"')
    return x, x


def _typed(v):
    """a typed property value (string "x") / (integer 3) / (boolean (true)) in the notation of harness._val"""
    kw = _kw(v)
    if kw == "integer":
        return "<int>%d" % int(v[1])
    if kw == "boolean":
        return "<bool>%s" % (_kw(v[1]) == "true")
    if kw == "number":
        return "<number>%s" % (v[1],)
    return v[1].strip('"') if isinstance(v[1], str) else str(v[1])


def _find(lst, kw):
    return [x for x in lst if _kw(x) == kw]


def read_canon(text):
    """the design an EDIF text describes, as Canon(s, n, TRUE) of spec/Fmt.tla (sets as lists)"""
    tree = _sexpr(text)
    assert _kw(tree) == "edif"
    nl_id, nl_name = _name(tree[1])
    libs = []
    lib_by_id, cell_by_id = {}, {}
    for lib in _find(tree, "library") + _find(tree, "external"):
        lid, lname = _name(lib[1])
        lib_by_id[lid.lower()] = lname
        cells = []
        for cell in _find(lib, "cell"):
            cid, cname = _name(cell[1])
            cell_by_id[(lid.lower(), cid.lower())] = cname
            view = _find(cell, "view")[0]
            ports, port_by_id = [], {}
            for itf in _find(view, "interface"):
                for p in _find(itf, "port"):
                    nd = p[1]
                    direction = 0
                    for dd in _find(p, "direction"):
                        direction = DIR_BACK[dd[1].upper()]
                    if isinstance(nd, list) and _kw(nd) == "array":
                        pid, pname = _name(nd[1])
                        width = int(nd[2])
                        # the original name is kept verbatim (a "[h:l]" suffix is part of the name; EDIF port
                        # arrays have no base index)
                        rec = {"name": pname, "dir": direction, "width": width, "array": True, "lower": 0}
                    else:
                        pid, pname = _name(nd)
                        rec = {"name": pname, "dir": direction, "width": 1, "array": False, "lower": 0}
                    port_by_id[pid.lower()] = rec
                    ports.append(rec)
            insts, inst_by_id, nets = [], {}, {}
            for con in _find(view, "contents"):
                for ins in _find(con, "instance"):
                    iid, iname = _name(ins[1])
                    vr = _find(ins, "viewref")[0]
                    cr = _find(vr, "cellref")[0]
                    lr = _find(cr, "libraryref")
                    rl = lr[0][1].lower() if lr else lid.lower()
                    props = [(pp[1] if isinstance(pp[1], str) else pp[1][1], _typed(pp[2]))
                             for pp in _find(ins, "property")]
                    ptok = ""
                    if props:
                        ptok = props[0][1]
                        if not (len(props) == 2 and props[1] == ("q", "w")):
                            ptok += "#%d" % len(props)
                    rec = {"name": iname, "ref_id": (rl, cr[1].lower()), "props": ptok}
                    inst_by_id[iid.lower()] = rec
                    insts.append(rec)
                # a scalar net whose identifier / name equals the bus part of bit nets keeps those bit nets from
                # being merged (an array cable of that identifier could not coexist with it)
                scalar_ids, scalar_names = set(), set()
                for net in _find(con, "net"):
                    nid, nname = _name(net[1])
                    if not (re.match(r"(.*)\[(\d+)\]$", nname) and re.match(r"(.*)_(\d+)_$", nid)):
                        scalar_ids.add(nid.lower())
                        scalar_names.add(nname)
                for net in _find(con, "net"):
                    nid, nname = _name(net[1])
                    eps = []
                    for j in _find(net, "joined"):
                        for pr in _find(j, "portref"):
                            tgt = pr[1]
                            bit = 0
                            if isinstance(tgt, list) and _kw(tgt) == "member":
                                pid, bit = tgt[1], int(tgt[2])
                            else:
                                pid = tgt
                            ir = _find(pr, "instanceref")
                            eps.append({"inst_id": ir[0][1].lower() if ir else "", "port_id": pid.lower(), "bit": bit})
                    m = re.match(r"(.*)\[(\d+)\]$", nname)
                    m2 = re.match(r"(.*)_(\d+)_$", nid)
                    if m and m2 and m.group(1) not in scalar_names and m2.group(1).lower() not in scalar_ids:
                        base, idx = m.group(1), int(m.group(2))
                        # two nets that claim the same bit of the same bus are one net (their pins are joined)
                        nets.setdefault(base, {"array": True, "bits": {}})["bits"].setdefault(idx, []).extend(eps)
                    else:
                        nets.setdefault(nname, {"array": False, "bits": {}})["bits"].setdefault(0, []).extend(eps)
            cells.append({"name": cname, "ports": ports, "insts": insts, "inst_by_id": inst_by_id,
                          "port_by_id": port_by_id, "nets": nets, "lib": lid.lower(), "id": cid.lower()})
        libs.append({"name": lname, "cells": cells, "id": lid.lower()})
    all_cells = {(c["lib"], c["id"]): c for l in libs for c in l["cells"]}
    out_libs = []
    for l in libs:
        ocells = []
        for c in l["cells"]:
            oinsts = []
            for i in c["insts"]:
                oinsts.append({"name": i["name"], "ref": cell_by_id[i["ref_id"]], "reflib": lib_by_id[i["ref_id"][0]],
                               "props": i["props"]})
            onets = []
            for nname, nrec in c["nets"].items():
                idxs = sorted(nrec["bits"])
                lower = idxs[0] if nrec["array"] else 0
                width = (idxs[-1] - idxs[0] + 1) if nrec["array"] else 1
                bits = []
                for k in range(width):
                    eps = []
                    for e in nrec["bits"].get(lower + k, []):
                        if e["inst_id"]:
                            inst = c["inst_by_id"][e["inst_id"]]
                            pdef = all_cells[inst["ref_id"]]["port_by_id"][e["port_id"]]
                            eps.append({"inst": inst["name"], "port": pdef["name"], "bit": e["bit"]})
                        else:
                            eps.append({"inst": "", "port": c["port_by_id"][e["port_id"]]["name"], "bit": e["bit"]})
                    bits.append(eps)
                onets.append({"name": nname, "width": width, "array": nrec["array"], "lower": lower, "bits": bits})
            ocells.append({"name": c["name"], "ports": c["ports"], "insts": oinsts, "nets": onets})
        out_libs.append({"name": l["name"], "cells": ocells})
    top = {"cell": "<none>", "lib": "<none>"}
    for dsg in _find(tree, "design"):
        cr = _find(dsg, "cellref")[0]
        lr = _find(cr, "libraryref")[0]
        top = {"cell": cell_by_id[(lr[1].lower(), cr[1].lower())], "lib": lib_by_id[lr[1].lower()]}
    return {"name": nl_name, "top": top, "libs": out_libs}
