"""A listener that merely replays announcements (the shadow model of property C19).

MirrorListener subclasses the public extension point spydrnet.callback.CallbackListener.  It keeps
a membership-level copy of all netlists' structure and data that is updated ONLY from the
arguments of the announcements it hears.  Inside every callback it also evaluates, through the
public read API, whether the announced change is already visible ("effective already") - the
property says announcements come before the change takes effect.

The mirror is order-insensitive (announcements carry no positions) and identifies a connected
outer pin by the outer pin object the announcement denotes.
"""
from spydrnet.callback.callback_listener import CallbackListener
from spydrnet.ir import (Netlist, Library, Definition, Port, Cable, Instance, InnerPin, OuterPin,
                         Wire)

RELS = {"netlist_add_library": ("NL", +1), "netlist_remove_library": ("NL", -1),
        "library_add_definition": ("LD", +1), "library_remove_definition": ("LD", -1),
        "definition_add_port": ("DP", +1), "definition_remove_port": ("DP", -1),
        "definition_add_cable": ("DC", +1), "definition_remove_cable": ("DC", -1),
        "definition_add_child": ("DI", +1), "definition_remove_child": ("DI", -1),
        "port_add_pin": ("PQ", +1), "port_remove_pin": ("PQ", -1),
        "cable_add_wire": ("CW", +1), "cable_remove_wire": ("CW", -1)}
LISTATTR = {"NL": "libraries", "LD": "definitions", "DP": "ports", "DC": "cables", "DI": "children",
            "PQ": "pins", "CW": "wires"}
BACKATTR = {"NL": "netlist", "LD": "library", "DP": "definition", "DC": "definition", "DI": "parent",
            "PQ": "port", "CW": "cable"}


def _resolve(pin):
    """the pin object an announced pin argument denotes (a proxy denotes the instance's own pin)"""
    if isinstance(pin, OuterPin):
        inst, ip = pin.instance, pin.inner_pin
        if inst is not None and ip is not None:
            try:
                real = inst.pins.get(ip, None)
            except Exception:
                real = None
            if real is not None:
                return real
    return pin


class MirrorListener(CallbackListener):
    def __init__(self, tag="A"):
        self.tag = tag
        self.rel = {rn: set() for rn in LISTATTR}     # (id(parent), id(child))
        self.conn = set()                             # (id(wire), id(pin object))
        self.ref = {}                                 # id(instance) -> definition object or None
        self.top = {}                                 # id(netlist) -> object or None
        self.data = {}                                # id(element) -> dict
        self.objs = {}                                # id -> object (keeps them alive)
        self.ann = []                                 # announcements of the current call
        self.seen = set()
        super().__init__()

    # -- bookkeeping -------------------------------------------------------------------------
    def begin_call(self):
        self.ann = []
        self.seen = set()

    def _keep(self, *objs):
        for o in objs:
            if o is not None:
                self.objs[id(o)] = o

    def _note(self, ev, key, already, args=()):
        """record an announcement; a repeat of the same announcement within one call is not
        counted as late (the first one is the announcement of the change).  args: the objects /
        values the announcement carried (turned into ids by harness.ann_records)"""
        rep = (ev, key) in self.seen
        self.seen.add((ev, key))
        self.ann.append({"ev": ev, "late": bool(already and not rep), "rep": rep, "args": args})

    # -- creation ----------------------------------------------------------------------------
    def _create(self, ev, e):
        self._keep(e)
        self.data.setdefault(id(e), {})
        self._note(ev, id(e), False, (e,))

    def create_netlist(self, netlist):
        self._create("create_netlist", netlist)

    def create_library(self, library):
        self._create("create_library", library)

    def create_definition(self, definition):
        self._create("create_definition", definition)

    def create_port(self, port):
        self._create("create_port", port)

    def create_cable(self, cable):
        self._create("create_cable", cable)

    def create_instance(self, instance):
        self._create("create_instance", instance)

    # -- containment -------------------------------------------------------------------------
    def _rel(self, ev, parent, child):
        rn, sign = RELS[ev]
        self._keep(parent, child)
        try:
            listed = any(x is child for x in getattr(parent, LISTATTR[rn]))
            back = getattr(child, BACKATTR[rn]) is parent
        except Exception:
            listed = back = False
        if sign > 0:
            already = listed or back
            self.rel[rn].add((id(parent), id(child)))
        else:
            already = (not listed) or (not back)
            self.rel[rn].discard((id(parent), id(child)))
        self._note(ev, (id(parent), id(child)), already, (parent, child))

    def netlist_add_library(self, netlist, library):
        self._rel("netlist_add_library", netlist, library)

    def netlist_remove_library(self, netlist, library):
        self._rel("netlist_remove_library", netlist, library)

    def library_add_definition(self, library, definition):
        self._rel("library_add_definition", library, definition)

    def library_remove_definition(self, library, definition):
        self._rel("library_remove_definition", library, definition)

    def definition_add_port(self, definition, port):
        self._rel("definition_add_port", definition, port)

    def definition_remove_port(self, definition, port):
        self._rel("definition_remove_port", definition, port)

    def definition_add_cable(self, definition, cable):
        self._rel("definition_add_cable", definition, cable)

    def definition_remove_cable(self, definition, cable):
        self._rel("definition_remove_cable", definition, cable)

    def definition_add_child(self, definition, child):
        self._rel("definition_add_child", definition, child)

    def definition_remove_child(self, definition, child):
        self._rel("definition_remove_child", definition, child)

    def port_add_pin(self, port, pin):
        self._rel("port_add_pin", port, pin)

    def port_remove_pin(self, port, pin):
        self._rel("port_remove_pin", port, pin)

    def cable_add_wire(self, cable, wire):
        self._rel("cable_add_wire", cable, wire)

    def cable_remove_wire(self, cable, wire):
        self._rel("cable_remove_wire", cable, wire)

    # -- connections -------------------------------------------------------------------------
    def wire_connect_pin(self, wire, pin):
        real = _resolve(pin)
        self._keep(wire, real)
        already = real.wire is wire or any(x is real for x in wire.pins)
        self.conn.add((id(wire), id(real)))
        self._note("wire_connect_pin", (id(wire), id(real)), already, (wire, real, getattr(real, "instance", None), getattr(real, "inner_pin", None)))

    def wire_disconnect_pin(self, wire, pin):
        real = _resolve(pin)
        self._keep(wire, real)
        already = (real.wire is not wire) or not any(x is real for x in wire.pins)
        self.conn.discard((id(wire), id(real)))
        self._note("wire_disconnect_pin", (id(wire), id(real)), already, (wire, real, getattr(real, "instance", None), getattr(real, "inner_pin", None)))

    # -- references and top ------------------------------------------------------------------
    def instance_reference(self, instance, reference):
        self._keep(instance, reference)
        already = instance.reference is reference and self.ref.get(id(instance), None) is not reference
        self.ref[id(instance)] = reference
        self._note("instance_reference", (id(instance), id(reference)), already, (instance, reference))

    def netlist_top_instance(self, netlist, instance):
        self._keep(netlist, instance)
        already = netlist.top_instance is instance and self.top.get(id(netlist), None) is not instance
        self.top[id(netlist)] = instance
        self._note("netlist_top_instance", (id(netlist), id(instance)), already, (netlist, instance))

    # -- data --------------------------------------------------------------------------------
    def dictionary_set(self, element, key, value):
        self._keep(element)
        d = self.data.setdefault(id(element), {})
        already = (key in element and element[key] == value) and not (key in d and d[key] == value)
        d[key] = value
        self._note("dictionary_set", (id(element), key, repr(value)), already, (element, key, value))

    def dictionary_delete(self, element, key):
        self._keep(element)
        d = self.data.setdefault(id(element), {})
        already = (key not in element) and (key in d)
        d.pop(key, None)
        self._note("dictionary_delete", (id(element), key), already, (element, key))

    def dictionary_pop(self, element, key):
        self._keep(element)
        d = self.data.setdefault(id(element), {})
        already = (key not in element) and (key in d)
        d.pop(key, None)
        self._note("dictionary_pop", (id(element), key), already, (element, key))


class PassiveListener(CallbackListener):
    """a second, passive listener (counts announcements) used for the listener configurations"""

    def __init__(self):
        self.count = 0
        super().__init__()

    def _n(self, *a, **k):
        self.count += 1


class ConnectOnlyListener(CallbackListener):
    """a partial listener: overrides wire_connect_pin only"""

    def __init__(self):
        self.count = 0
        super().__init__()

    def wire_connect_pin(self, wire, pin):
        self.count += 1


class DisconnectOnlyListener(CallbackListener):
    """a partial listener: overrides wire_disconnect_pin only"""

    def __init__(self):
        self.count = 0
        super().__init__()

    def wire_disconnect_pin(self, wire, pin):
        self.count += 1


class DataOnlyListener(CallbackListener):
    """a partial listener: overrides dictionary_set only"""

    def __init__(self):
        self.count = 0
        super().__init__()

    def dictionary_set(self, element, key, value):
        self.count += 1


for _name in [n for n in dir(CallbackListener) if not n.startswith("_") and
              not n.startswith("register") and not n.startswith("deregister")]:
    if callable(getattr(CallbackListener, _name)):
        setattr(PassiveListener, _name, lambda self, *a, **k: PassiveListener._n(self, *a, **k))
