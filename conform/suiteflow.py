"""Trace validation of the repository's own test-suite: run the tests of /repo with the recorder hook on
(SPYDRNET_VERIF=1, conform/spydrnet_verif_recorder.py as pytest plugin), cut the recording into shards
for spec/Trace.tla."""
import json
import os
import subprocess
import sys

HERE = os.path.dirname(os.path.abspath(__file__))
REPO = os.environ.get("VERIF_REPO", "/repo")
NPROC = int(os.environ.get("VERIF_NPROC", "16"))

# tests that reach into private attributes (or build deliberately inconsistent objects): their traces are
# not histories of public calls, which is what the properties quantify over.  Reason per entry.
EXCLUDED = json.load(open(os.path.join(HERE, "suite_excluded.json")))


def record(outdir, select=None, timeout=1500):
    os.makedirs(outdir, exist_ok=True)
    out = os.path.join(outdir, "suite.ndjson")
    env = dict(os.environ)
    env.update({"SPYDRNET_VERIF": "1", "SPYDRNET_VERIF_OUT": out,
                "PYTHONPATH": HERE + os.pathsep + REPO, "PYTHONDONTWRITEBYTECODE": "1",
                "EXAMPLE_NETLISTS_PATH": os.path.join(REPO, "example_netlists")})
    cmd = ["/venv/bin/python", "-m", "pytest", "-q", "-p", "no:cacheprovider", "-p", "spydrnet_verif_recorder",
           "--timeout=900"] + (list(select) if select else [])
    p = subprocess.run(cmd, cwd=REPO, env=env, capture_output=True, text=True, timeout=timeout)
    tail = [x for x in p.stdout.strip().splitlines() if x.strip()][-1:] or [p.stderr.strip()[-300:]]
    return out, tail[0]


def shard(path, outdir, nshards=None):
    """-> (shard paths, totals, segment table).  Segments are spread over the shards by size; the "pre"
    index of a call record becomes the absolute line number in its shard."""
    nshards = nshards or NPROC
    segs = []
    with open(path) as f:
        while True:
            line = f.readline()
            if not line:
                break
            head = json.loads(line)
            recs = [json.loads(f.readline()) for _ in range(head["n"])]
            segs.append((head, recs))
    tot = {"groups": 0, "calls": 0, "ok": 0, "refused": 0, "changed_refused": 0, "unbuildable": 0, "records": 0,
           "nontrivial_refused": 0, "announcements": 0, "transparency_compared": 0, "segments": len(segs),
           "segments_cut": sum(1 for h, _ in segs if h["cut"]), "segments_excluded": 0, "resets_unobserved": 0,
           "calls_in_vocabulary": 0}
    keep = []
    for h, recs in segs:
        if any(h["seg"].startswith(x) or x in h["seg"] for x in EXCLUDED):
            tot["segments_excluded"] += 1
            continue
        keep.append((h, recs))
    keep.sort(key=lambda s: -len(s[1]))
    bins = [[] for _ in range(nshards)]
    load = [0] * nshards
    for s in keep:
        i = load.index(min(load))
        bins[i].append(s)
        load[i] += sum(len(json.dumps(r)) for r in s[1])
    paths = []
    refused_keys = set()
    for i, b in enumerate(bins):
        if not b:
            continue
        p = os.path.join(outdir, "suite%02d.ndjson" % i)
        paths.append(p)
        n = 0
        with open(p, "w") as f:
            for h, recs in b:
                base = n
                for r in recs:
                    if r["t"] == "reset":
                        r["seg"] = h["seg"]
                        tot["groups"] += 1
                        if r.get("why") == "unobserved change":
                            tot["resets_unobserved"] += 1
                    else:
                        r["pre"] = base + r["pre"] + 1
                        tot["calls"] += 1
                        tot[r["out"]] += 1
                        if r["call"]["op"] != "other":
                            tot["calls_in_vocabulary"] += 1
                        if r["out"] == "refused":
                            refused_keys.add((h["seg"], json.dumps(r["call"], sort_keys=True)))
                            if not r["same"]:
                                tot["changed_refused"] += 1
                    n += 1
                    f.write(json.dumps(r, separators=(",", ":")) + "\n")
        tot["records"] += n
    tot["nontrivial_refused"] = len(refused_keys)
    return paths, tot


if __name__ == "__main__":
    import tempfile
    d = tempfile.mkdtemp(prefix="suite-")
    out, tail = record(d, sys.argv[1:] or None)
    print(tail)
    paths, tot = shard(out, d)
    print(tot)
    print(d)
