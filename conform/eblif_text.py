"""An independent EBLIF writer (trusted base of C18).

render(state, n, opts): abstract FLAT design (the specification's state record, netlist n, following the
conventions of spydrnet's EBLIF representation: the top model's ports have same-named cables, primitives
live in their own library, every instance is named by its .cname) -> EBLIF text.

Options (chosen by the model): comments, continuation (break .subckt lines with a backslash), order
("asis" | "reversed" order of the instance statements), declare ("all" | "none": declare the primitive
models as .blackbox or leave them undeclared), unconn ("omit" | "unconn": how an unconnected pin is written),
conn ("none" | "before" | "after": tie one net to an alias with .conn, placed before or after its uses).
"""


class Unrenderable(Exception):
    pass


def render(st, n, opts=None):
    opts = opts or {}
    t = st["nlTop"][n - 1]
    top = st["instRef"][t - 1]
    out = []
    w = out.append
    if opts.get("comments"):
        w("# rendered by conform/eblif_text.py")
    w(".model %s" % st["defData"][top - 1]["name"])
    port_names = set()

    def port_bits(p):
        nm = st["portData"][p - 1]["name"]
        pins = st["portPins"][p - 1]
        a = st["portAttr"][p - 1]
        if len(pins) == 1 and a["scalar"]:
            return [nm]
        return ["%s[%d]" % (nm, a["lower"] + k) for k in range(len(pins))]
    ins, outs = [], []
    for p in st["defPorts"][top - 1]:
        port_names.add(st["portData"][p - 1]["name"])
        dr = st["portAttr"][p - 1]["dir"]
        if dr in (1, 2):
            ins.extend(port_bits(p))
        if dr in (1, 3, 0):              # an inout port is listed on both lines
            outs.extend(port_bits(p))
    w(".inputs " + " ".join(ins))
    w(".outputs " + " ".join(outs))
    netname = {}
    for c in st["defCables"][top - 1]:
        cname = st["cabData"][c - 1]["name"]
        a = st["cabAttr"][c - 1]
        wires = st["cabWires"][c - 1]
        for k, wi in enumerate(wires):
            netname[wi] = cname if (len(wires) == 1 and a["scalar"]) else "%s[%d]" % (cname, a["lower"] + k)
    # the alias: the first internal (non-port) net that has at least two instance pins gets a second name
    alias_of, alias_wire = None, None
    if opts.get("conn", "none") != "none":
        for c in st["defCables"][top - 1]:
            if st["cabData"][c - 1]["name"] in port_names:
                continue
            for wi in st["cabWires"][c - 1]:
                if len([r for r in st["wirePins"][wi - 1] if r["k"] == "o"]) >= 2:
                    alias_wire, alias_of = wi, netname[wi] + "__alias"
                    break
            if alias_wire:
                break
    if alias_wire and opts.get("conn") == "before":
        w(".conn %s %s" % (netname[alias_wire], alias_of))
    kids = list(st["defKids"][top - 1])
    if opts.get("order") == "reversed":
        kids.reverse()
    used_alias = 0
    alias_uses = 2 if opts.get("conn") == "after2" else 1
    for i in kids:
        r = st["instRef"][i - 1]
        d = st["instData"][i - 1]
        if opts.get("comments"):
            w("#")                       # an EMPTY comment line directly ahead of the statement
        kw = ".gate" if d.get("k") == "g" else ".subckt"
        conns = []
        for p in st["defPorts"][r - 1]:
            pins = st["portPins"][p - 1]
            a = st["portAttr"][p - 1]
            pname = st["portData"][p - 1]["name"]
            for k, q in enumerate(pins):
                formal = pname if (len(pins) == 1 and a["scalar"]) else "%s[%d]" % (pname, a["lower"] + k)
                wq = None
                for e in st["instPins"][i - 1]:
                    if e["ip"] == q:
                        wq = e["wire"] or None
                if wq is None:
                    if opts.get("unconn") == "unconn":
                        conns.append("%s=unconn" % formal)
                    continue
                if wq not in netname:
                    raise Unrenderable("instance pin connected outside the top model")
                actual = netname[wq]
                if wq == alias_wire and used_alias < alias_uses:
                    actual = alias_of          # the first use(s) go through the alias
                    used_alias += 1
                conns.append("%s=%s" % (formal, actual))
        if st["defData"][r - 1]["name"] == "generic-latch":
            # .latch <input> <output> <type> <control> <init-val>: all five are nets in spydrnet's representation
            by_port = dict(c.split("=", 1) for c in conns)
            order = ["input", "output", "type", "control", "init-val"]
            if any(o not in by_port or by_port[o] == "unconn" for o in order):
                raise Unrenderable("latch with an unconnected terminal")
            w(".latch " + " ".join(by_port[o] for o in order))
            w(".cname %s" % d["name"])
            continue
        if d.get("k") == "n":
            # .names <in_0> ... <out> followed by the single-output cover lines; the reader names the instance after
            # the driven net, a .cname says otherwise
            actual_of = dict(c.split("=", 1) for c in conns)
            formals = []
            for p in st["defPorts"][r - 1]:
                if len(st["portPins"][p - 1]) != 1:
                    raise Unrenderable(".names primitive with a vector port")
                formals.append(st["portData"][p - 1]["name"])
            nin = len(formals) - 1
            if formals != ["in_%d" % j for j in range(nin)] + ["out"]:
                raise Unrenderable(".names on a cell that is not a logic gate")
            nets = [actual_of.get(f, "unconn") for f in formals]
            w(".names " + " ".join(nets))
            pv = d.get("props")
            if pv:
                if nin == 0:
                    w("1")
                elif pv == "v0":
                    w("1" * nin + " 1")
                else:
                    w("0" * nin + " 1")
                    w("1" * nin + " 1")
            if nets[-1] != d["name"] or opts.get("comments"):
                w(".cname %s" % d["name"])
            continue
        sep = " \\\n  " if opts.get("continuation") else " "
        w(kw + " " + st["defData"][r - 1]["name"] + sep + sep.join(conns) if conns else kw + " " + st["defData"][r - 1]["name"])
        w(".cname %s" % d["name"])
        if d.get("k") in ("u", "v"):
            w(".attr A %s" % d["k"])
        if d.get("props"):
            w(".param INIT %s" % d["props"])
        if opts.get("comments"):
            w("# an instance")
    if alias_wire and opts.get("conn") in ("after", "after2"):
        w(".conn %s %s" % (netname[alias_wire], alias_of))
    w(".end")
    if opts.get("declare", "all") == "all":
        prims = []
        for i in st["defKids"][top - 1]:
            r = st["instRef"][i - 1]
            if r not in prims:
                prims.append(r)
        for lib in st["nlLibs"][n - 1]:
            for dd in st["libDefs"][lib - 1]:
                if dd != top and dd not in prims:
                    prims.append(dd)
        for r in prims:
            if st["defData"][r - 1]["name"] == "generic-latch" or st["defData"][r - 1]["name"].startswith("logic-gate_"):
                continue          # the reader makes these itself (.latch / .names)
            w("")
            w(".model %s" % st["defData"][r - 1]["name"])
            i_, o_ = [], []
            for p in st["defPorts"][r - 1]:
                (i_ if st["portAttr"][p - 1]["dir"] == 2 else o_).extend(port_bits(p))
            w(".inputs " + " ".join(i_))
            w(".outputs " + " ".join(o_))
            w(".blackbox")
            w(".end")
    return "\n".join(out) + "\n"
