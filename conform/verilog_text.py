"""An independent structural-Verilog writer (trusted base of C06 / C04).

render(state, n, opts): abstract design (the specification's state record, netlist n, following the
conventions of spydrnet's Verilog representation: every module port has a same-named cable wired to its
pins, pin/wire position 0 is the least significant bit) -> Verilog source text.

Options (chosen by the model): order ("asis" | "reversed" module order), ansi (bool: ANSI port
declarations), positional (bool: positional port maps), concat (bool: always write per-bit
concatenations instead of identifiers / part-selects), escaped (bool: escaped identifiers for
instance and wire names), concatparts (bool: inside concatenations, runs of adjacent
bits of one net are written as part-selects or whole nets), comments (bool), celldefine (bool: wrap leaf modules in `celldefine), grouped (bool: header-only style with ONE
declaration for consecutive ports of the same direction and range: "input [1:0] p, q;"), escmod (bool: module
names written as escaped identifiers, in the declaration and in every instantiation), undeclared (bool: leaf
modules are not declared at all - the reader has to infer black boxes from the named port maps of their instances).
"""


import re
_SIMPLE = re.compile(r"^[A-Za-z_][A-Za-z0-9_$]*$")


class Unrenderable(Exception):
    """the design has a connection shape structural Verilog cannot express (e.g. a hole below a connected bit)"""


DIRW = {0: "inout", 1: "inout", 2: "input", 3: "output"}
CONST = {"\\<const0>": "1'b0", "\\<const1>": "1'b1"}


def render(st, n, opts=None):
    opts = opts or {}
    esc = opts.get("escaped", False)

    def ident(name, allow_escape=True):
        if (esc and allow_escape) or not _SIMPLE.match(name):
            return "\\" + name + " "         # names like j[0] can only be written escaped
        return name

    def rng(width, lower):
        return "" if width == 1 and lower == 0 else "[%d:%d] " % (lower + width - 1, lower)

    def modname(name):
        return ("\\" + name + " ") if opts.get("escmod") else name

    libs = st["nlLibs"][n - 1]
    defs = [d for lib in libs for d in st["libDefs"][lib - 1]
            if not st["defData"][d - 1]["name"].startswith("SDN_VERILOG_ASSIGNMENT")]
    if opts.get("order") == "reversed":
        defs = list(reversed(defs))
    out = []
    w = out.append
    if opts.get("comments"):
        w("// rendered by conform/verilog_text.py\n/* block\n   comment */")
    for d in defs:
        dname = st["defData"][d - 1]["name"]
        ports = st["defPorts"][d - 1]
        cables = st["defCables"][d - 1]
        kids = st["defKids"][d - 1]
        port_names = [st["portData"][p - 1]["name"] for p in ports]
        is_leaf = not kids and all(st["cabData"][c - 1]["name"] in port_names for c in cables)
        if is_leaf and opts.get("undeclared") and st["defRefs"][d - 1]:
            continue          # never declared: an inferred black box
        if is_leaf and opts.get("celldefine"):
            w("`celldefine")
        decls = []
        heads = []
        # header-aliased ports: a port whose pins meet other nets than its same-named one is written
        # .port({msb, ..., lsb}) in the header and the nets it meets carry the direction declaration
        wire_home = {}
        for c in cables:
            for k, wi in enumerate(st["cabWires"][c - 1]):
                wire_home[wi] = (st["cabData"][c - 1]["name"], k, c)
        alias = {}            # port -> wires met by its pins, least significant first
        for p in ports:
            pname = st["portData"][p - 1]["name"]
            met = [st["pinWire"][q - 1] or None for q in st["portPins"][p - 1]]
            if all(x is None or (x in wire_home and wire_home[x][:2] == (pname, k)) for k, x in enumerate(met)):
                continue
            if any(x is None or x not in wire_home for x in met):
                raise Unrenderable("aliased port with an unconnected or foreign bit")
            alias[p] = met
        alias_nets = []       # (cable, direction) in order of first use
        for p in ports:
            for x in alias.get(p, ()):
                c = wire_home[x][2]
                dirs = [dd for cc, dd in alias_nets if cc == c]
                if dirs and dirs[0] != st["portAttr"][p - 1]["dir"]:
                    raise Unrenderable("a net met by aliased ports of two directions")
                if not dirs:
                    alias_nets.append((c, st["portAttr"][p - 1]["dir"]))
        plain_names = [st["portData"][p - 1]["name"] for p in ports if p not in alias]
        for c, dd in alias_nets:
            cn = st["cabData"][c - 1]["name"]
            if cn in CONST:
                raise Unrenderable("a constant in a port alias")
            if cn in [st["portData"][p - 1]["name"] for p in ports]:
                raise Unrenderable("an aliased port meets the net of another port")
        decl_names = []
        for p in ports:
            if p in alias:
                continue
            a = st["portAttr"][p - 1]
            heads.append("%s %s" % (DIRW[a["dir"]], rng(len(st["portPins"][p - 1]), a["lower"])))
            decls.append("%s %s%s" % (DIRW[a["dir"]], rng(len(st["portPins"][p - 1]), a["lower"]),
                                      ident(st["portData"][p - 1]["name"], False)))
            decl_names.append(ident(st["portData"][p - 1]["name"], False))
        for c, dd in alias_nets:
            a = st["cabAttr"][c - 1]
            heads.append("%s %s" % (DIRW[dd], rng(len(st["cabWires"][c - 1]), a["lower"])))
            decls.append("%s %s%s" % (DIRW[dd], rng(len(st["cabWires"][c - 1]), a["lower"]), ident(st["cabData"][c - 1]["name"])))
            decl_names.append(ident(st["cabData"][c - 1]["name"]))
        alias_net_names = [st["cabData"][c - 1]["name"] for c, _ in alias_nets]
        dk = st["defData"][d - 1].get("k", "")
        if dk:          # a module attribute, written as TWO separate attribute sets ahead of the module
            w('(* A = "%s" *)' % dk)
            w('(* B = "1" *)')
        if opts.get("ansi") and not alias:
            w("module %s(%s);" % (modname(dname), ", ".join(decls)))
        else:
            def header_item(p):
                pn = ident(st["portData"][p - 1]["name"], False)
                if p not in alias:
                    return pn
                refs = []
                for x in reversed(alias[p]):
                    cn, k, c = wire_home[x]
                    nmx = ident(cn)
                    wd, lo = len(st["cabWires"][c - 1]), st["cabAttr"][c - 1]["lower"]
                    refs.append(nmx if wd == 1 and lo == 0 else "%s[%d]" % (nmx, lo + k))
                whole = [wire_home[x][2] for x in alias[p]]
                c0 = whole[0]
                if (not opts.get("concat") and all(c == c0 for c in whole)
                        and [wire_home[x][1] for x in alias[p]] == list(range(len(st["cabWires"][c0 - 1])))):
                    return ".%s(%s)" % (pn, ident(st["cabData"][c0 - 1]["name"]))       # the whole net
                return ".%s({%s})" % (pn, ", ".join(refs))
            w("module %s(%s);" % (modname(dname), ", ".join(header_item(p) for p in ports)))
            if opts.get("grouped"):
                j = 0
                while j < len(heads):
                    k = j
                    while k + 1 < len(heads) and heads[k + 1] == heads[j]:
                        k += 1
                    w("  %s%s;" % (heads[j], ", ".join(decl_names[j:k + 1])))
                    j = k + 1
            else:
                for dd in decls:
                    w("  %s;" % dd)
        cab_of_wire = {}
        for c in cables:
            cname = st["cabData"][c - 1]["name"]
            a = st["cabAttr"][c - 1]
            wires = st["cabWires"][c - 1]
            for k, wi in enumerate(wires):
                cab_of_wire[wi] = (cname, k, len(wires), a["lower"])
            if cname in port_names or cname in CONST or cname in alias_net_names:
                continue
            ck = st["cabData"][c - 1].get("k", "")
            w("  %swire %s%s;" % (('(* A = "%s  w" *) ' % ck) if ck else "", rng(len(wires), a["lower"]), ident(cname)))

        def bitref(wi):
            cname, k, width, lower = cab_of_wire[wi]
            if cname in CONST:
                return CONST[cname]
            nm = ident(cname, cname not in port_names)
            return nm if width == 1 and lower == 0 else "%s[%d]" % (nm, lower + k)

        for i in kids:
            r = st["instRef"][i - 1]
            if st["defData"][r - 1]["name"].startswith("SDN_VERILOG_ASSIGNMENT"):
                # an assign statement: the wires on the pins of port o are assigned the wires on the pins of port i
                sides = {}
                for p in st["defPorts"][r - 1]:
                    ws = []
                    for q in st["portPins"][p - 1]:
                        wq = None
                        for e in st["instPins"][i - 1]:
                            if e["ip"] == q:
                                wq = e["wire"] or None
                        if wq is None or wq not in cab_of_wire:
                            raise Unrenderable("assign with an unconnected side")
                        ws.append(cab_of_wire[wq])
                    cname = ws[0][0]
                    if any(x[0] != cname for x in ws) or any(ws[j][1] != ws[0][1] + j for j in range(len(ws))):
                        raise Unrenderable("assign side is not one slice of a net")
                    nm = ident(cname, cname not in port_names)
                    lo = ws[0][3] + ws[0][1]
                    if len(ws) == ws[0][2] and ws[0][1] == 0:
                        expr = nm
                    elif len(ws) == 1:
                        expr = "%s[%d]" % (nm, lo)
                    else:
                        expr = "%s[%d:%d]" % (nm, lo + len(ws) - 1, lo)
                    sides[st["portData"][p - 1]["name"]] = expr
                w("  assign %s = %s;" % (sides["o"], sides["i"]))
                continue
            conns = []
            for p in st["defPorts"][r - 1]:
                pins = st["portPins"][p - 1]
                wires = []
                for q in pins:
                    wq = None
                    for e in st["instPins"][i - 1]:
                        if e["ip"] == q:
                            wq = e["wire"] or None
                    if wq is not None and wq not in cab_of_wire:
                        raise Unrenderable("instance pin connected outside its parent module")
                    wires.append(wq)
                # wires[k] is what bit k (from the least significant end) of the port meets
                top = len(wires)
                while top > 0 and wires[top - 1] is None:
                    top -= 1
                if any(x is None for x in wires[:top]):
                    raise Unrenderable("hole below a connected bit")
                bits = wires[:top]
                if not bits:
                    expr = ""
                else:
                    refs = [cab_of_wire[x] for x in bits]
                    same = all(rf[0] == refs[0][0] for rf in refs) and refs[0][0] not in CONST
                    contiguous = same and all(refs[j][1] == refs[0][1] + j for j in range(len(refs)))
                    cname = refs[0][0]
                    nm = ident(cname, cname not in port_names)
                    if opts.get("concat") or not contiguous:
                        if len(bits) == 1 and not opts.get("concat"):
                            expr = bitref(bits[0])
                        elif opts.get("concatparts"):
                            # members of more than one bit: maximal ascending runs inside one net become part-selects
                            runs, j = [], 0
                            while j < len(bits):
                                k = j
                                while k + 1 < len(bits) and refs[k + 1][0] == refs[j][0] and refs[j][0] not in CONST \
                                        and refs[k + 1][1] == refs[k][1] + 1:
                                    k += 1
                                if k == j:
                                    runs.append(bitref(bits[j]))
                                else:
                                    cn = refs[j][0]
                                    nmj = ident(cn, cn not in port_names)
                                    lo2 = refs[j][3] + refs[j][1]
                                    if (k - j + 1) == refs[j][2] and refs[j][1] == 0:
                                        runs.append(nmj)                      # the whole net as one member
                                    else:
                                        runs.append("%s[%d:%d]" % (nmj, lo2 + (k - j), lo2))
                                j = k + 1
                            expr = "{" + ", ".join(reversed(runs)) + "}"
                        else:
                            expr = "{" + ", ".join(bitref(x) for x in reversed(bits)) + "}"
                    elif len(bits) == refs[0][2] and refs[0][1] == 0:
                        expr = nm
                    elif len(bits) == 1:
                        expr = bitref(bits[0])
                    else:
                        lo = refs[0][3] + refs[0][1]
                        expr = "%s[%d:%d]" % (nm, lo + len(bits) - 1, lo)
                conns.append((st["portData"][p - 1]["name"], expr))
            ref_kids = st["defKids"][r - 1]
            ref_ports = [st["portData"][p - 1]["name"] for p in st["defPorts"][r - 1]]
            ref_leaf = not ref_kids and all(st["cabData"][c - 1]["name"] in ref_ports for c in st["defCables"][r - 1])
            undeclared = bool(opts.get("undeclared")) and ref_leaf
            if undeclared:
                conns = [(pn, e) for pn, e in conns if e]      # an inferred black box has the ports that are used
            if opts.get("positional") and all(e for _, e in conns) and not undeclared:     # positional maps with every port connected
                args = ", ".join(e for _, e in conns)
            else:
                sepc = ", /* c1 */ // c2\n      " if opts.get("comments") else ", "      # two comments in a row after a comma
                args = sepc.join(".%s(%s)" % (ident(pn, False), e) for pn, e in conns)
            ik = st["instData"][i - 1].get("k", "")
            ip = st["instData"][i - 1].get("props", "")
            w("  %s%s %s%s(%s);" % (('(* A = "%s\tw" *) ' % ik) if ik else "", modname(st["defData"][r - 1]["name"]),
                                  ("#(.P(%s)) " % ip) if ip else "", ident(st["instData"][i - 1]["name"]), args))
        w("endmodule")
        if is_leaf and opts.get("celldefine"):
            w("`endcelldefine")
    return "\n".join(out) + "\n"
