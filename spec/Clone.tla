------------------------------- MODULE Clone -------------------------------
(***************************************************************************)
(* clone() of every element kind (spydrnet/clone.py and the clone methods  *)
(* of spydrnet/ir): the subtree below the root is copied, links between    *)
(* copied elements are re-established between the copies, links that leave *)
(* the subtree are kept downward (an instance keeps its reference and its  *)
(* outer pins keep their inner pins) and cut sideways (wires), the root is *)
(* orphaned, and definitions outside the subtree learn of the copied       *)
(* instances that reference them.  Copies get fresh ids in the canonical   *)
(* walk order netlist, libraries, definitions, ports, cables, instances,   *)
(* pins, wires.                                                            *)
(***************************************************************************)
EXTENDS Transform

CloneOf(s, kind, x) ==
    LET Ns == IF kind = "N" THEN <<x>> ELSE <<>>
        Ls == IF kind = "N" THEN s.nlLibs[x] ELSE IF kind = "L" THEN <<x>> ELSE <<>>
        Ds == IF kind = "D" THEN <<x>> ELSE FlatSeq([j \in DOMAIN Ls |-> s.libDefs[Ls[j]]])
        Ps == IF kind = "P" THEN <<x>> ELSE FlatSeq([j \in DOMAIN Ds |-> s.defPorts[Ds[j]]])
        Cs == IF kind = "C" THEN <<x>> ELSE FlatSeq([j \in DOMAIN Ds |-> s.defCables[Ds[j]]])
        kidsI == FlatSeq([j \in DOMAIN Ds |-> s.defKids[Ds[j]]])
        topI == IF kind = "N" /\ s.nlTop[x] # None /\ s.nlTop[x] \notin SeqSet(kidsI) THEN <<s.nlTop[x]>> ELSE <<>>
        Is == IF kind = "I" THEN <<x>> ELSE topI \o kidsI
        Qs == IF kind = "Q" THEN <<x>> ELSE FlatSeq([j \in DOMAIN Ps |-> s.portPins[Ps[j]]])
        Ws == IF kind = "W" THEN <<x>> ELSE FlatSeq([j \in DOMAIN Cs |-> s.cabWires[Cs[j]]])
        in(q, e) == e \in SeqSet(q)
        mN(e) == NumN(s) + IndexIn(Ns, e)   mL(e) == NumL(s) + IndexIn(Ls, e)
        mD(e) == NumD(s) + IndexIn(Ds, e)   mP(e) == NumP(s) + IndexIn(Ps, e)
        mC(e) == NumC(s) + IndexIn(Cs, e)   mI(e) == NumI(s) + IndexIn(Is, e)
        mQ(e) == NumQ(s) + IndexIn(Qs, e)   mW(e) == NumW(s) + IndexIn(Ws, e)
        optW(w) == IF w # None /\ in(Ws, w) THEN mW(w) ELSE None
        refOf(i) == IF s.instRef[i] # None /\ in(Ds, s.instRef[i]) THEN mD(s.instRef[i]) ELSE s.instRef[i]
        keyOf(q) == IF in(Qs, q) THEN mQ(q) ELSE q
        refCopied(r) == IF r.k = "i" THEN in(Qs, r.q) ELSE in(Is, r.i)
        mapRef(r) == IF r.k = "i" THEN IPin(mQ(r.q)) ELSE OPin(mI(r.i), keyOf(r.q))
        mapSeq(q, m(_)) == [j \in DOMAIN q |-> m(q[j])]
        root(q, e, v) == IF kind = q /\ e = x THEN None ELSE v       \* the root of the clone is an orphan
        s1 == [s EXCEPT
            !.nlLibs = @ \o [j \in DOMAIN Ns |-> mapSeq(s.nlLibs[Ns[j]], mL)],
            !.nlTop  = @ \o [j \in DOMAIN Ns |-> IF s.nlTop[Ns[j]] = None THEN None ELSE mI(s.nlTop[Ns[j]])],
            !.nlData = @ \o [j \in DOMAIN Ns |-> s.nlData[Ns[j]]],
            !.libNl   = @ \o [j \in DOMAIN Ls |-> root("L", Ls[j], IF kind = "N" THEN mN(x) ELSE None)],
            !.libDefs = @ \o [j \in DOMAIN Ls |-> mapSeq(s.libDefs[Ls[j]], mD)],
            !.libData = @ \o [j \in DOMAIN Ls |-> s.libData[Ls[j]]],
            !.defLib    = @ \o [j \in DOMAIN Ds |-> root("D", Ds[j], IF in(Ls, s.defLib[Ds[j]]) THEN mL(s.defLib[Ds[j]]) ELSE None)],
            !.defPorts  = @ \o [j \in DOMAIN Ds |-> mapSeq(s.defPorts[Ds[j]], mP)],
            !.defCables = @ \o [j \in DOMAIN Ds |-> mapSeq(s.defCables[Ds[j]], mC)],
            !.defKids   = @ \o [j \in DOMAIN Ds |-> mapSeq(s.defKids[Ds[j]], mI)],
            !.defRefs   = @ \o [j \in DOMAIN Ds |-> {mI(i) : i \in {ii \in s.defRefs[Ds[j]] : in(Is, ii)}}],
            !.defData   = @ \o [j \in DOMAIN Ds |-> s.defData[Ds[j]]],
            !.portDef  = @ \o [j \in DOMAIN Ps |-> root("P", Ps[j], IF in(Ds, s.portDef[Ps[j]]) THEN mD(s.portDef[Ps[j]]) ELSE None)],
            !.portPins = @ \o [j \in DOMAIN Ps |-> mapSeq(s.portPins[Ps[j]], mQ)],
            !.portData = @ \o [j \in DOMAIN Ps |-> s.portData[Ps[j]]],
            !.portAttr = @ \o [j \in DOMAIN Ps |-> s.portAttr[Ps[j]]],
            !.cabDef   = @ \o [j \in DOMAIN Cs |-> root("C", Cs[j], IF in(Ds, s.cabDef[Cs[j]]) THEN mD(s.cabDef[Cs[j]]) ELSE None)],
            !.cabWires = @ \o [j \in DOMAIN Cs |-> mapSeq(s.cabWires[Cs[j]], mW)],
            !.cabData  = @ \o [j \in DOMAIN Cs |-> s.cabData[Cs[j]]],
            !.cabAttr  = @ \o [j \in DOMAIN Cs |-> s.cabAttr[Cs[j]]],
            !.instParent = @ \o [j \in DOMAIN Is |-> root("I", Is[j], IF s.instParent[Is[j]] # None /\ in(Ds, s.instParent[Is[j]])
                                                                      THEN mD(s.instParent[Is[j]]) ELSE None)],
            !.instRef    = @ \o [j \in DOMAIN Is |-> refOf(Is[j])],
            !.instPins   = @ \o [j \in DOMAIN Is |-> [k \in DOMAIN s.instPins[Is[j]] |->
                                     MkOP(mI(Is[j]), keyOf(s.instPins[Is[j]][k].ip), optW(s.instPins[Is[j]][k].wire))]],
            !.instTop    = @ \o [j \in DOMAIN Is |-> IF kind = "N" THEN s.instTop[Is[j]] ELSE FALSE],
            !.instData   = @ \o [j \in DOMAIN Is |-> s.instData[Is[j]]],
            !.pinPort = @ \o [j \in DOMAIN Qs |-> root("Q", Qs[j], IF in(Ps, s.pinPort[Qs[j]]) THEN mP(s.pinPort[Qs[j]]) ELSE None)],
            !.pinWire = @ \o [j \in DOMAIN Qs |-> optW(s.pinWire[Qs[j]])],
            !.wireCable = @ \o [j \in DOMAIN Ws |-> root("W", Ws[j], IF in(Cs, s.wireCable[Ws[j]]) THEN mC(s.wireCable[Ws[j]]) ELSE None)],
            !.wirePins  = @ \o [j \in DOMAIN Ws |->
                                 LET kept == SelectSeq(s.wirePins[Ws[j]], refCopied) IN mapSeq(kept, mapRef)]]
        \* definitions outside the subtree learn of the copied instances that reference them (not for a
        \* netlist clone: a netlist is expected to be self-contained and Netlist.clone does not do it)
        s2 == [s1 EXCEPT !.defRefs = [d \in DOMAIN @ |->
                  IF kind # "N" /\ d <= NumD(s) /\ ~in(Ds, d)
                  THEN @[d] \cup {mI(i) : i \in {ii \in SeqSet(Is) : s.instRef[ii] = d}}
                  ELSE @[d]]]
        newRoot == CASE kind = "N" -> mN(x) [] kind = "L" -> mL(x) [] kind = "D" -> mD(x)
                     [] kind = "P" -> mP(x) [] kind = "C" -> mC(x) [] kind = "I" -> mI(x)
                     [] kind = "Q" -> mQ(x) [] kind = "W" -> mW(x)
    IN [s |-> s2, root |-> newRoot]
=============================================================================
