------------------------------ MODULE Scopes ------------------------------
(***************************************************************************)
(* Call alphabets.  Cands(s, sc) is the finite set of calls - valid AND    *)
(* invalid - that a scope `sc` offers in state s.  Arguments range over    *)
(* every existing element id, so every precondition of every enabled       *)
(* mutator is exercised in its satisfied and in its violated form in every *)
(* reachable state (foreign elements, non-members, already-connected pins, *)
(* shape-mismatching references, non-permutations, colliding names).       *)
(*                                                                         *)
(* A scope is a record                                                     *)
(*   [init  : sequence of calls that builds the initial skeleton,          *)
(*    ops   : set of enabled call families ("add:DP", "connect", ...),      *)
(*    max   : [N, L, D, P, C, I, Q, W |-> bound on elements of that kind], *)
(*    names : names offered to constructors and renames,                   *)
(*    vals  : values offered for identifiers,                              *)
(*    pos   : positions offered to add/connect]                            *)
(***************************************************************************)
EXTENDS Listener

Kinds == {"N", "L", "D", "P", "C", "I", "Q", "W"}
On(sc, f) == f \in sc.ops
Room(s, sc, kind) == CountOf(s, kind) < sc.max[kind]
NamesFor(sc, kind) == IF kind \in FirstClass THEN sc.names ELSE {NoVal}

(* the collection argument of a bulk call is handed over as a list, as a one-shot iterator, or as a list that *)
(* names its first member twice - the same set of elements each time                                          *)
ArgForms(C) == {c @@ [form |-> f] : <<c, f>> \in C \X {"list", "iter", "dup"}}
Perms(q) == {p \in [DOMAIN q -> SeqSet(q)] : \A a, b \in DOMAIN q : a # b => p[a] # p[b]}
BadSeqs(q, extra) ==      \* non-permutations: one dropped, one duplicated, a stranger added, and - same length -
                          \* one member written over another member or over by a stranger
    (IF q = <<>> THEN {} ELSE {Tail(q), Append(q, q[1])}) \cup {Append(q, e) : e \in extra}
    \cup (IF Len(q) >= 2 THEN {[q EXCEPT ![2] = q[1]], [q EXCEPT ![1] = q[Len(q)]]} ELSE {})
    \cup (IF q = <<>> THEN {} ELSE {[q EXCEPT ![Len(q)] = e] : e \in extra})
FirstOf(q) == IF q = <<>> THEN {} ELSE {q[1]}
SmallSubsets(S) == {T \in SUBSET S : T # {} /\ Cardinality(T) <= 2}

AllRefs(s) ==             \* every live pin as a call argument, outer pins real and as proxy
    {IPin(q) : q \in IdsQ(s)}
    \cup UNION {{OPin(i, s.instPins[i][j].ip), PPin(i, s.instPins[i][j].ip)} :
                    <<i, j>> \in {<<ii, jj>> \in IdsI(s) \X (1..8) : jj \in DOMAIN s.instPins[ii]}}
BadRefs(s) ==             \* proxies for (instance, pin) pairs that are not pins of the instance
    {PPin(i, q) : <<i, q>> \in {<<ii, qq>> \in IdsI(s) \X IdsQ(s) : ~HasOP(s, ii, qq)}}

CandsNew(s, sc) ==
    UNION {IF On(sc, "new:" \o kind) /\ Room(s, sc, kind)
           THEN {[op |-> "new", kind |-> kind, name |-> nm] : nm \in NamesFor(sc, kind)} ELSE {}
           : kind \in Kinds \ {"N"}}
    \cup (IF On(sc, "new:N") /\ Room(s, sc, "N")
          THEN {[op |-> "new", kind |-> "N", name |-> nm] : nm \in sc.names} ELSE {})

CandsRel(s, sc, rn) ==
    LET r == Rel[rn]
        P == 1..CountOf(s, r.pk)
        X == 1..CountOf(s, r.ck)
        sub == IF rn = "DP" THEN sc.createN ELSE IF rn = "DC" THEN sc.createN ELSE {0} IN
    (IF On(sc, "create:" \o rn) /\ Room(s, sc, r.ck)
     THEN {[op |-> "create", rel |-> rn, p |-> p, name |-> nm, n |-> n] :
               <<p, nm, n>> \in P \X NamesFor(sc, r.ck) \X sub} ELSE {})
    \cup (IF On(sc, "create_n:" \o rn) /\ CountOf(s, r.ck) + 2 <= sc.max[r.ck]
     THEN {[op |-> "create_n", rel |-> rn, p |-> p, n |-> 2] : p \in P} ELSE {})
    \cup (IF On(sc, "add:" \o rn)
     THEN {[op |-> "add", rel |-> rn, p |-> p, x |-> x, pos |-> pos] : <<p, x, pos>> \in P \X X \X sc.pos}
     ELSE {})
    \cup (IF On(sc, "remove:" \o rn)
     THEN {[op |-> "remove", rel |-> rn, p |-> p, x |-> x] : <<p, x>> \in P \X X} ELSE {})
    \cup (IF On(sc, "remove_from:" \o rn)
     THEN ArgForms(UNION {{[op |-> "remove_from", rel |-> rn, p |-> p, xs |-> T] :
                     T \in SmallSubsets(SeqSet(s[r.list][p]))}
                 \cup {[op |-> "remove_from", rel |-> rn, p |-> p, xs |-> {x} \cup FirstOf(s[r.list][p])] :
                     x \in X \ SeqSet(s[r.list][p])} : p \in P})
     ELSE {})
    \cup (IF On(sc, "reorder:" \o rn)
     THEN UNION {{[op |-> "reorder", rel |-> rn, p |-> p, seq |-> q] :
                     q \in (IF Len(s[r.list][p]) <= 4 THEN Perms(s[r.list][p]) ELSE {s[r.list][p]})
                           \cup BadSeqs(s[r.list][p], X \ SeqSet(s[r.list][p]))} : p \in P}
     ELSE {})

CandsWire(s, sc) ==
    LET refs == AllRefs(s) IN
    (IF On(sc, "connect")
     THEN {[op |-> "connect", w |-> w, pin |-> r, pos |-> pos] :
              <<w, r, pos>> \in IdsW(s) \X (refs \cup BadRefs(s)) \X sc.pos} ELSE {})
    \cup (IF On(sc, "disconnect")
     THEN {[op |-> "disconnect", w |-> w, pin |-> r] : <<w, r>> \in IdsW(s) \X (refs \cup BadRefs(s))}
     ELSE {})
    \cup (IF On(sc, "disconnect_from")
     THEN ArgForms(UNION {{[op |-> "disconnect_from", w |-> w, pins |-> T] :
                     T \in SmallSubsets({r \in refs : WireOfRef(s, r) = w})}
                 \cup {[op |-> "disconnect_from", w |-> w, pins |-> {r}] :
                     r \in {rr \in refs : WireOfRef(s, rr) # w}} : w \in IdsW(s)})
     ELSE {})
    \cup (IF On(sc, "reorder_pins")
     THEN UNION {LET cur == s.wirePins[w]
                     asProxy(q) == [j \in DOMAIN q |-> IF q[j].k = "o" THEN PPin(q[j].i, q[j].q) ELSE q[j]] IN
                 {[op |-> "reorder_pins", w |-> w, seq |-> q] :
                     q \in (IF Len(cur) <= 3 THEN Perms(cur) \cup {asProxy(p) : p \in Perms(cur)} ELSE {cur})
                           \cup BadSeqs(cur, {r \in refs : r.k # "p" /\ WireOfRef(s, r) # w})} : w \in IdsW(s)}
     ELSE {})

CandsInst(s, sc) ==
    (IF On(sc, "set_ref")
     THEN {[op |-> "set_ref", i |-> i, d |-> d] : <<i, d>> \in IdsI(s) \X (IdsD(s) \cup {None})} ELSE {})
    \cup (IF On(sc, "unref") THEN {[op |-> "set_ref", i |-> i, d |-> None] : i \in IdsI(s)} ELSE {})
    \cup (IF On(sc, "untop") THEN {[op |-> "set_top", n |-> n, i |-> None] : n \in IdsN(s)} ELSE {})
    \cup (IF On(sc, "create_child") /\ Room(s, sc, "I")
     THEN {[op |-> "create_child", p |-> p, name |-> nm, ref |-> d] :
              <<p, nm, d>> \in IdsD(s) \X sc.names \X (IdsD(s) \cup {None})} ELSE {})
    \cup (IF On(sc, "set_top")
     THEN {[op |-> "set_top", n |-> n, i |-> i] : <<n, i>> \in IdsN(s) \X (IdsI(s) \cup {None})} ELSE {})
    \cup (IF On(sc, "set_top_dm") /\ Room(s, sc, "I")
     THEN {[op |-> "set_top_dm", n |-> n, d |-> d, name |-> nm] : <<n, d, nm>> \in IdsN(s) \X IdsD(s) \X (sc.names \ {NoVal})} ELSE {})
    \cup (IF On(sc, "set_top_def") /\ Room(s, sc, "I")
     THEN {[op |-> "set_top_def", n |-> n, d |-> d] : <<n, d>> \in IdsN(s) \X IdsD(s)} ELSE {})

CandsData(s, sc) ==
    UNION {LET X == 1..CountOf(s, kind) IN
        (IF On(sc, "set_name:" \o kind)
         THEN {[op |-> "set_name", kind |-> kind, x |-> x, val |-> v] : <<x, v>> \in X \X (sc.names \ {NoVal})}
         ELSE {})
        \cup (IF On(sc, "del_name:" \o kind)
         THEN {[op |-> o, kind |-> kind, x |-> x] : <<o, x>> \in {"del_name", "set_name_none"} \X X} ELSE {})
        \cup (IF On(sc, "set_eid:" \o kind)
         THEN {[op |-> "set_item", kind |-> kind, x |-> x, key |-> "eid", val |-> v] : <<x, v>> \in X \X sc.vals}
         ELSE {})
        \cup (IF On(sc, "del_item:" \o kind)
         THEN {[op |-> o, kind |-> kind, x |-> x, key |-> key] :
                  <<o, x, key>> \in {"del_item", "pop_item"} \X X \X {"name", "eid", "k"}} ELSE {})
        \cup (IF On(sc, "set_k:" \o kind)
         THEN {[op |-> "set_item", kind |-> kind, x |-> x, key |-> "k", val |-> v] : <<x, v>> \in X \X {"u", "v", "g"}}
         ELSE {})
        \cup (IF On(sc, "props:" \o kind)
         THEN {[op |-> "mutate_props", kind |-> kind, x |-> x, val |-> "v1"] : x \in X}
              \cup {[op |-> "set_item", kind |-> kind, x |-> x, key |-> "props", val |-> "v0"] : x \in X}
         ELSE {})
        \cup (IF On(sc, "set_ns:" \o kind)
         THEN {[op |-> "set_item", kind |-> kind, x |-> x, key |-> "ns", val |-> v] :
                  <<x, v>> \in X \X {"DEFAULT", "EDIF", "BOGUS"}} ELSE {})
        : kind \in FirstClass}
    \cup (IF On(sc, "set_default")
          THEN {[op |-> "set_default", val |-> v] : v \in Policies} ELSE {})
    \cup UNION {IF On(sc, "set_attr:" \o kind)
                THEN {[op |-> "set_attr", kind |-> kind, x |-> x, key |-> "scalar", val |-> v] :
                         <<x, v>> \in (1..CountOf(s, kind)) \X BOOLEAN}
                     \cup {[op |-> "set_lower", kind |-> kind, x |-> x, ival |-> 2] :
                         x \in 1..CountOf(s, kind)}
                ELSE {} : kind \in {"P", "C"}}

Cands(s, sc) ==
    CandsNew(s, sc) \cup UNION {CandsRel(s, sc, rn) : rn \in RelNames}
    \cup CandsWire(s, sc) \cup CandsInst(s, sc) \cup CandsData(s, sc)

---------------------------------------------------------------------------
(* skeleton helpers *)
Cnew(kind, nm)            == [op |-> "new", kind |-> kind, name |-> nm]
Ccreate(rn, p, nm, n)     == [op |-> "create", rel |-> rn, p |-> p, name |-> nm, n |-> n]
Cchild(p, nm, d)          == [op |-> "create_child", p |-> p, name |-> nm, ref |-> d]
Cadd(rn, p, x)            == [op |-> "add", rel |-> rn, p |-> p, x |-> x, pos |-> NoPos]
Cconnect(w, r)            == [op |-> "connect", w |-> w, pin |-> r, pos |-> NoPos]
Csetref(i, d)             == [op |-> "set_ref", i |-> i, d |-> d]
Csettop(n, i)             == [op |-> "set_top", n |-> n, i |-> i]
Csettopdef(n, d)          == [op |-> "set_top_def", n |-> n, d |-> d]
Csetitem(kind, x, key, v) == [op |-> "set_item", kind |-> kind, x |-> x, key |-> key, val |-> v]
Csetdefault(v)            == [op |-> "set_default", val |-> v]

MaxAll(n) == [N |-> n, L |-> n, D |-> n, P |-> n, C |-> n, I |-> n, Q |-> n, W |-> n]

=============================================================================
