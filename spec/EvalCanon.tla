------------------------------ MODULE EvalCanon ------------------------------
(* debugging aid: print the canon of a logged state next to the canon an       *)
(* independent reader extracted from a file (tools/diffcanon.py)               *)
EXTENDS PropsF, Json, IOUtils, TLCExt
J == JsonDeserialize(IOEnv.EVAL_FILE)
StateOfJ(js) == LET core == [f \in DOMAIN Empty |-> js[f]] IN
               [core EXCEPT !.defRefs = [d \in DOMAIN @ |-> SeqSet(@[d])]]
ASSUME PrintT(<<"EVAL", ToJson([canon |-> Canon(StateOfJ(J.state), J.n, TRUE),
                                file |-> FileCanon(J.filecanon),
                                dom |-> DomC03(StateOfJ(J.state), J.n),
                                eq |-> LET a == Canon(StateOfJ(J.state), J.n, TRUE)  b == FileCanon(J.filecanon) IN
                                       [name |-> a.name = b.name, top |-> a.top = b.top, libs |-> a.libs = b.libs,
                                        nlibs |-> <<Cardinality(a.libs), Cardinality(b.libs)>>,
                                        cells |-> {<<l.name, c.name>> : l \in a.libs, c \in {}} ,
                                        unmatched |-> {<<l.name, c.name>> : <<l, c>> \in {<<ll, cc>> \in UNION {{<<l2, c2>> : c2 \in l2.cells} : l2 \in a.libs} :
                                                          ~\E lb \in b.libs : cc \in lb.cells}}]])>>)
VARIABLE x
Init == x = 0
Next == FALSE /\ x' = x
=============================================================================
