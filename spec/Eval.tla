-------------------------------- MODULE Eval --------------------------------
(* debugging aid: print what the model says a call does to a logged state     *)
EXTENDS PropsC, Json, IOUtils, TLCExt
J == JsonDeserialize(IOEnv.EVAL_FILE)
StateOfJ(js) == LET core == [f \in DOMAIN Empty |-> js[f]] IN
               [core EXCEPT !.defRefs = [d \in DOMAIN @ |-> SeqSet(@[d])]]
ASSUME PrintT(<<"EVAL", ToJson(ApplyX(StateOfJ(J.state), J.call))>>)
VARIABLE x
Init == x = 0
Next == FALSE /\ x' = x
=============================================================================
