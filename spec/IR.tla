------------------------------- MODULE IR -------------------------------
(***************************************************************************)
(* The spydrnet intermediate representation as a state machine.            *)
(*                                                                         *)
(* The abstract state is ONE record `s` (so that the same operators run on *)
(* model states and on states logged from the implementation).  Every      *)
(* public mutator of spydrnet/ir is one "call" record `c`;            *)
(* Apply(s, c) is the pure transition function: it returns                 *)
(* [s |-> post-state, out |-> "ok" | "refused", ret |-> <<new ids>>].      *)
(* The model-checking Next-relation, the build scripts of the generated    *)
(* netlist families and the strict trace validation are all defined from   *)
(* Apply, so there is one source of truth for what a call does.            *)
(*                                                                         *)
(* Element ids are 1..n per kind, allocated in creation order (a new       *)
(* element appends one entry to every per-kind sequence); 0 is None.       *)
(* Both directions of every link are separate fields because the code      *)
(* stores them separately (C01 is exactly that they agree).                *)
(***************************************************************************)
EXTENDS Naturals, Integers, Sequences, FiniteSets, TLC

None  == 0
NoPos == -1          \* position=None

---------------------------------------------------------------------------
(* sequence helpers *)
SeqSet(q)   == {q[i] : i \in DOMAIN q}
NoDup(q)    == \A i, j \in DOMAIN q : i # j => q[i] # q[j]
MinOf(S)    == CHOOSE x \in S : \A y \in S : x <= y
InsertAt(q, pos, x) ==        \* list.insert(pos, x) for pos >= 0, append for None
    IF pos = NoPos \/ pos >= Len(q) THEN Append(q, x)
    ELSE SubSeq(q, 1, pos) \o <<x>> \o SubSeq(q, pos + 1, Len(q))
Without(q, S)  == SelectSeq(q, LAMBDA x : x \notin S)
RemoveFirst(q, x) ==
    LET I == {i \in DOMAIN q : q[i] = x}
    IN  IF I = {} THEN q
        ELSE LET k == MinOf(I) IN SubSeq(q, 1, k - 1) \o SubSeq(q, k + 1, Len(q))
Count(q, x) == Cardinality({i \in DOMAIN q : q[i] = x})
RECURSIVE FlatSeq(_)
FlatSeq(qq) == IF qq = <<>> THEN <<>> ELSE Head(qq) \o FlatSeq(Tail(qq))
RECURSIVE SetToSeq(_)           \* ascending order, for sets of naturals
SetToSeq(S) == IF S = {} THEN <<>> ELSE LET m == MinOf(S) IN <<m>> \o SetToSeq(S \ {m})
RECURSIVE SetToSeqAny(_)        \* some enumeration of a finite set
SetToSeqAny(S) == IF S = {} THEN <<>> ELSE LET x == CHOOSE y \in S : TRUE IN <<x>> \o SetToSeqAny(S \ {x})
RECURSIVE FoldSeq(_, _, _)      \* FoldSeq(Op, acc, q) left fold
FoldSeq(Op(_, _), acc, q) == IF q = <<>> THEN acc ELSE FoldSeq(Op, Op(acc, Head(q)), Tail(q))

---------------------------------------------------------------------------
(* element data.  Five keys are modelled: .NAME, EDIF.identifier, .NS, a    *)
(* flat user key k and a NESTED user value props (EDIF.properties: a list   *)
(* of two dicts, abstracted to the token stored in the first, with "#n"     *)
(* appended when the list no longer has its two entries).  "" = key absent. *)
NoVal == ""
MkData(nm, ns) == [name |-> nm, eid |-> NoVal, ns |-> ns, k |-> NoVal, props |-> NoVal, vattr |-> NoVal, eb |-> NoVal]
Policies == {"DEFAULT", "EDIF"}

(* Names and identifiers are atomic tokens; case folding and EDIF legality  *)
(* are tables over the tokens a scope uses (extended by Naming scopes).     *)
FoldTable == [a |-> "a", A |-> "a", b |-> "b", B |-> "b", c |-> "c", ab |-> "ab", Ab |-> "ab",
              aB |-> "ab", AB |-> "ab"]
Fold(v)  == IF v \in DOMAIN FoldTable THEN FoldTable[v] ELSE v
\* "@N:c" is a token for N-1 letters a followed by c, "&N:c" the same behind a leading &: a plain identifier may have 255
\* characters, one that starts with & 256
IllegalIds == {"1x", "a-b", "_a", "a b", "&", "@256:x", "&257:x"}
EdifLegal(v) == v \notin IllegalIds /\ v # NoVal

---------------------------------------------------------------------------
Empty ==
  [ nlLibs |-> <<>>, nlTop |-> <<>>, nlData |-> <<>>,
    libNl |-> <<>>, libDefs |-> <<>>, libData |-> <<>>,
    defLib |-> <<>>, defPorts |-> <<>>, defCables |-> <<>>, defKids |-> <<>>,
    defRefs |-> <<>>, defData |-> <<>>,
    portDef |-> <<>>, portPins |-> <<>>, portData |-> <<>>, portAttr |-> <<>>,
    cabDef |-> <<>>, cabWires |-> <<>>, cabData |-> <<>>, cabAttr |-> <<>>,
    instParent |-> <<>>, instRef |-> <<>>, instPins |-> <<>>, instTop |-> <<>>,
    instData |-> <<>>,
    pinPort |-> <<>>, pinWire |-> <<>>,
    wireCable |-> <<>>, wirePins |-> <<>>,
    nsDefault |-> "DEFAULT" ]

(* bundle attributes: dir is 0..3 (UNDEFINED, INOUT, IN, OUT), cables use 0 *)
MkAttr == [dir |-> 0, downto |-> TRUE, scalar |-> TRUE, lower |-> 0]

NumN(s) == Len(s.nlLibs)     NumL(s) == Len(s.libNl)      NumD(s) == Len(s.defLib)
NumP(s) == Len(s.portDef)    NumC(s) == Len(s.cabDef)     NumI(s) == Len(s.instParent)
NumQ(s) == Len(s.pinPort)    NumW(s) == Len(s.wireCable)
IdsN(s) == 1..NumN(s)  IdsL(s) == 1..NumL(s)  IdsD(s) == 1..NumD(s)  IdsP(s) == 1..NumP(s)
IdsC(s) == 1..NumC(s)  IdsI(s) == 1..NumI(s)  IdsQ(s) == 1..NumQ(s)  IdsW(s) == 1..NumW(s)

(* pin references as they occur in wire pin lists and as call arguments     *)
IPin(q)     == [k |-> "i", q |-> q]                \* inner pin q
OPin(i, q)  == [k |-> "o", i |-> i, q |-> q]       \* the outer pin stored in i.pins[q]
PPin(i, q)  == [k |-> "p", i |-> i, q |-> q]       \* a proxy OuterPin(i, q) (call argument only)
StoredRef(r) == IF r.k = "p" THEN OPin(r.i, r.q) ELSE r

(* one entry of instance.pins: key ip, connected wire, and what the stored  *)
(* outer pin object reports about itself (in the model always (i, ip)).     *)
MkOP(i, q, w) == [ip |-> q, wire |-> w, inst |-> i, inner |-> q, ok |-> TRUE]
OPIndex(s, i, q) == {j \in DOMAIN s.instPins[i] : s.instPins[i][j].ip = q}
HasOP(s, i, q)  == i \in IdsI(s) /\ OPIndex(s, i, q) # {}
OPWire(s, i, q) == s.instPins[i][MinOf(OPIndex(s, i, q))].wire

---------------------------------------------------------------------------
(* the seven containment relations *)
Rel == [ NL |-> [list |-> "nlLibs",    back |-> "libNl",      pk |-> "N", ck |-> "L"],
         LD |-> [list |-> "libDefs",   back |-> "defLib",     pk |-> "L", ck |-> "D"],
         DP |-> [list |-> "defPorts",  back |-> "portDef",    pk |-> "D", ck |-> "P"],
         DC |-> [list |-> "defCables", back |-> "cabDef",     pk |-> "D", ck |-> "C"],
         DI |-> [list |-> "defKids",   back |-> "instParent", pk |-> "D", ck |-> "I"],
         PQ |-> [list |-> "portPins",  back |-> "pinPort",    pk |-> "P", ck |-> "Q"],
         CW |-> [list |-> "cabWires",  back |-> "wireCable",  pk |-> "C", ck |-> "W"] ]
RelNames == DOMAIN Rel
DataField == [N |-> "nlData", L |-> "libData", D |-> "defData", P |-> "portData",
              C |-> "cabData", I |-> "instData"]
FirstClass == DOMAIN DataField
CountOf(s, kind) ==
    CASE kind = "N" -> NumN(s) [] kind = "L" -> NumL(s) [] kind = "D" -> NumD(s)
      [] kind = "P" -> NumP(s) [] kind = "C" -> NumC(s) [] kind = "I" -> NumI(s)
      [] kind = "Q" -> NumQ(s) [] kind = "W" -> NumW(s)
Exists(s, kind, x) == x \in 1..CountOf(s, kind)
DataOf(s, kind, x) == s[DataField[kind]][x]
(* which relation holds an element of `kind` as a child *)
RelOfChild == [L |-> "NL", D |-> "LD", P |-> "DP", C |-> "DC", I |-> "DI", Q |-> "PQ", W |-> "CW"]
ParentOf(s, kind, x) == IF kind = "N" THEN None ELSE s[Rel[RelOfChild[kind]].back][x]
ParentKind(kind) == Rel[RelOfChild[kind]].pk
SiblingsOf(s, kind, p) == s[Rel[RelOfChild[kind]].list][p]

---------------------------------------------------------------------------
(* Naming rules (spydrnet/plugins/namespace_manager).  The index the code   *)
(* keeps is a cache of this relation and is deliberately NOT modelled:      *)
(* conflicts are decided by scanning the current siblings.                  *)
NsOf(s, kind, x) == DataOf(s, kind, x).ns
HasNamespace(s, kind, x) == kind \in {"N", "L", "D"} /\ NsOf(s, kind, x) # NoVal

(* would value v under key (name|eid) collide with a sibling of x (x may be *)
(* 0 for "not yet a member") among the children of parent p ?               *)
Collides(s, kind, p, x, key, v) ==
    LET pol == NsOf(s, ParentKind(kind), p) IN
    \E y \in SeqSet(SiblingsOf(s, kind, p)) :
        /\ y # x
        /\ \/ key = "name" /\ DataOf(s, kind, y).name = v
           \/ key = "eid" /\ pol = "EDIF" /\ DataOf(s, kind, y).eid # NoVal
                          /\ Fold(DataOf(s, kind, y).eid) = Fold(v)

(* children of an element that carry data, as <<kind, id>> pairs *)
KidsOf(s, kind, x) ==
    CASE kind = "N" -> [j \in DOMAIN s.nlLibs[x] |-> <<"L", s.nlLibs[x][j]>>]
      [] kind = "L" -> [j \in DOMAIN s.libDefs[x] |-> <<"D", s.libDefs[x][j]>>]
      [] kind = "D" -> [j \in DOMAIN s.defPorts[x] |-> <<"P", s.defPorts[x][j]>>]
                       \o [j \in DOMAIN s.defCables[x] |-> <<"C", s.defCables[x][j]>>]
                       \o [j \in DOMAIN s.defKids[x] |-> <<"I", s.defKids[x][j]>>]
      [] OTHER -> <<>>
RECURSIVE Subtree(_, _, _)
Subtree(s, kind, x) ==        \* set of <<kind, id>> of x and everything below it
    {<<kind, x>>} \cup UNION {Subtree(s, e[1], e[2]) : e \in SeqSet(KidsOf(s, kind, x))}

(* is_compliant(target policy, subtree of x) *)
ChildGroupsOf(s, kind, x) ==
    CASE kind = "N" -> {<<"L", s.nlLibs[x]>>}
      [] kind = "L" -> {<<"D", s.libDefs[x]>>}
      [] kind = "D" -> {<<"P", s.defPorts[x]>>, <<"C", s.defCables[x]>>, <<"I", s.defKids[x]>>}
      [] OTHER -> {}
Compliant(s, pol, kind, x) ==
    \A e \in Subtree(s, kind, x) :
        /\ pol = "EDIF" /\ DataOf(s, e[1], e[2]).eid # NoVal => EdifLegal(DataOf(s, e[1], e[2]).eid)
        /\ \A g \in ChildGroupsOf(s, e[1], e[2]) :
              \A a, b \in DOMAIN g[2] : a # b =>
                  LET da == DataOf(s, g[1], g[2][a])  db == DataOf(s, g[1], g[2][b]) IN
                  /\ ~(da.name # NoVal /\ da.name = db.name)
                  /\ pol = "EDIF" => ~(da.eid # NoVal /\ db.eid # NoVal /\ Fold(da.eid) = Fold(db.eid))

SetNsOn(s, E, v) ==     \* write .NS := v on every element of the set E of <<kind,id>>
    LET Upd(kind, q) == [x \in DOMAIN q |-> IF <<kind, x>> \in E THEN [q[x] EXCEPT !.ns = v] ELSE q[x]]
    IN [s EXCEPT !.nlData = Upd("N", @), !.libData = Upd("L", @), !.defData = Upd("D", @),
                 !.portData = Upd("P", @), !.cabData = Upd("C", @), !.instData = Upd("I", @)]

(* the veto of the namespace manager on add(parent p, child x) and the      *)
(* policy adoption that goes with an accepted add                           *)
AddVetoed(s, kind, p, x) ==
    LET pk == ParentKind(kind)  d == DataOf(s, kind, x)  pol == NsOf(s, pk, p) IN
    \/ /\ HasNamespace(s, pk, p)
       /\ \/ d.eid # NoVal /\ Collides(s, kind, p, x, "eid", d.eid)
          \/ d.name # NoVal /\ Collides(s, kind, p, x, "name", d.name)
    \/ /\ pol # NoVal /\ d.ns # pol /\ ~Compliant(s, pol, kind, x)
AdoptNs(s, kind, p, x) ==
    LET pol == NsOf(s, ParentKind(kind), p) IN
    IF DataOf(s, kind, x).ns = pol THEN s ELSE SetNsOn(s, Subtree(s, kind, x), pol)

---------------------------------------------------------------------------
(* results *)
Ok(s2)        == [s |-> s2, out |-> "ok", ret |-> <<>>]
OkRet(s2, r)  == [s |-> s2, out |-> "ok", ret |-> r]
Refuse(s)     == [s |-> s, out |-> "refused", ret |-> <<>>]

---------------------------------------------------------------------------
(* constructors of loose elements (also used by the create calls) *)
NewN(s, nm) == [s EXCEPT !.nlLibs = Append(@, <<>>), !.nlTop = Append(@, None),
                         !.nlData = Append(@, MkData(nm, s.nsDefault))]
NewL(s, nm) == [s EXCEPT !.libNl = Append(@, None), !.libDefs = Append(@, <<>>),
                         !.libData = Append(@, MkData(nm, s.nsDefault))]
NewD(s, nm) == [s EXCEPT !.defLib = Append(@, None), !.defPorts = Append(@, <<>>),
                         !.defCables = Append(@, <<>>), !.defKids = Append(@, <<>>),
                         !.defRefs = Append(@, {}), !.defData = Append(@, MkData(nm, s.nsDefault))]
NewP(s, nm) == [s EXCEPT !.portDef = Append(@, None), !.portPins = Append(@, <<>>),
                         !.portData = Append(@, MkData(nm, s.nsDefault)),
                         !.portAttr = Append(@, MkAttr)]
NewC(s, nm) == [s EXCEPT !.cabDef = Append(@, None), !.cabWires = Append(@, <<>>),
                         !.cabData = Append(@, MkData(nm, s.nsDefault)),
                         !.cabAttr = Append(@, MkAttr)]
NewI(s, nm) == [s EXCEPT !.instParent = Append(@, None), !.instRef = Append(@, None),
                         !.instPins = Append(@, <<>>), !.instTop = Append(@, FALSE),
                         !.instData = Append(@, MkData(nm, s.nsDefault))]
NewQ(s)     == [s EXCEPT !.pinPort = Append(@, None), !.pinWire = Append(@, None)]
NewW(s)     == [s EXCEPT !.wireCable = Append(@, None), !.wirePins = Append(@, <<>>)]
NewOf(s, kind, nm) ==
    CASE kind = "N" -> NewN(s, nm) [] kind = "L" -> NewL(s, nm) [] kind = "D" -> NewD(s, nm)
      [] kind = "P" -> NewP(s, nm) [] kind = "C" -> NewC(s, nm) [] kind = "I" -> NewI(s, nm)
      [] kind = "Q" -> NewQ(s) [] kind = "W" -> NewW(s)

---------------------------------------------------------------------------
(* wires and pins *)
RefValid(s, r) ==     \* does the pin reference denote an existing pin object
    \/ r.k = "i" /\ r.q \in IdsQ(s)
    \/ r.k \in {"o", "p"} /\ HasOP(s, r.i, r.q)
WireOfRef(s, r) == IF r.k = "i" THEN s.pinWire[r.q] ELSE OPWire(s, r.i, r.q)
SetWireOfRef(s, r, w) ==
    IF r.k = "i" THEN [s EXCEPT !.pinWire[r.q] = w]
    ELSE LET j == MinOf(OPIndex(s, r.i, r.q)) IN [s EXCEPT !.instPins[r.i][j].wire = w]

Connect(s, w, r, pos) ==
    IF ~(w \in IdsW(s)) \/ ~RefValid(s, r) \/ WireOfRef(s, r) # None THEN Refuse(s)
    ELSE LET sr == StoredRef(r) IN
         Ok(SetWireOfRef([s EXCEPT !.wirePins[w] = InsertAt(@, pos, sr)], sr, w))

DisconnectRaw(s, w, sr) ==     \* sr a stored reference known to be on w
    SetWireOfRef([s EXCEPT !.wirePins[w] = RemoveFirst(@, sr)], sr, None)
Disconnect(s, w, r) ==
    IF ~(w \in IdsW(s)) \/ ~RefValid(s, r) \/ WireOfRef(s, r) # w THEN Refuse(s)
    ELSE Ok(DisconnectRaw(s, w, StoredRef(r)))
DisconnectFrom(s, w, R) ==     \* R a set of pin references
    IF ~(w \in IdsW(s)) \/ \E r \in R : ~RefValid(s, r) \/ WireOfRef(s, r) # w THEN Refuse(s)
    ELSE LET S == {StoredRef(r) : r \in R}
             s1 == [s EXCEPT !.wirePins[w] = Without(@, S)]
             clearInner == [s1 EXCEPT !.pinWire = [q \in DOMAIN @ |-> IF IPin(q) \in S THEN None ELSE @[q]]]
         IN Ok([clearInner EXCEPT !.instPins =
                  [i \in DOMAIN @ |-> [j \in DOMAIN @[i] |->
                      IF OPin(i, @[i][j].ip) \in S THEN [@[i][j] EXCEPT !.wire = None] ELSE @[i][j]]]])

(* drop the outer pin (i, q): take it off its wire first, then delete it    *)
DropOP(s, i, q) ==
    LET J == OPIndex(s, i, q) IN
    IF J = {} THEN s
    ELSE LET j == MinOf(J)  w == s.instPins[i][j].wire
             s1 == IF w = None THEN s ELSE [s EXCEPT !.wirePins[w] = RemoveFirst(@, OPin(i, q))]
         IN [s1 EXCEPT !.instPins[i] = SubSeq(@, 1, j - 1) \o SubSeq(@, j + 1, Len(@))]
DropOPsOfPin(s, d, q) ==      \* on every instance that references d
    FoldSeq(LAMBDA acc, i : DropOP(acc, i, q), s, SetToSeq(s.defRefs[d]))
AddOPsOfPin(s, d, q) ==
    FoldSeq(LAMBDA acc, i : [acc EXCEPT !.instPins[i] = Append(@, MkOP(i, q, None))], s,
            SetToSeq(s.defRefs[d]))
PinsOfDef(s, d) == FlatSeq([j \in DOMAIN s.defPorts[d] |-> s.portPins[s.defPorts[d][j]]])

---------------------------------------------------------------------------
(* generic container operations *)
AddTo(s, rn, p, x, pos) ==
    LET r == Rel[rn] IN
    IF ~Exists(s, r.pk, p) \/ ~Exists(s, r.ck, x) \/ s[r.back][x] # None THEN Refuse(s)
    ELSE IF r.ck \in FirstClass /\ AddVetoed(s, r.ck, p, x) THEN Refuse(s)
    ELSE LET s1 == IF r.ck \in FirstClass THEN AdoptNs(s, r.ck, p, x) ELSE s
             s2 == [s1 EXCEPT ![r.list][p] = InsertAt(@, pos, x), ![r.back][x] = p]
         IN CASE rn = "DP" ->      \* add_port: every instance gets outer pins for the port's pins
                   Ok(FoldSeq(LAMBDA acc, q : AddOPsOfPin(acc, p, q), s2, s2.portPins[x]))
              [] rn = "PQ" ->      \* add_pin on a port of an instanced definition
                   Ok(IF s2.portDef[p] = None THEN s2 ELSE AddOPsOfPin(s2, s2.portDef[p], x))
              [] OTHER -> Ok(s2)

(* what removing child x from its parent p does besides the list update     *)
DetachOne(s, rn, p, x) ==
    LET r == Rel[rn]
        s1 == [s EXCEPT ![r.back][x] = None]
    IN CASE rn = "DP" -> FoldSeq(LAMBDA acc, q : DropOPsOfPin(acc, p, q), s1, s1.portPins[x])
         [] rn = "PQ" -> IF s1.portDef[p] = None THEN s1 ELSE DropOPsOfPin(s1, s1.portDef[p], x)
         [] OTHER -> s1
RemoveOf(s, rn, p, x) ==
    LET r == Rel[rn] IN
    IF ~Exists(s, r.pk, p) \/ ~Exists(s, r.ck, x) \/ s[r.back][x] # p THEN Refuse(s)
    ELSE LET s1 == DetachOne(s, rn, p, x) IN Ok([s1 EXCEPT ![r.list][p] = RemoveFirst(@, x)])
RemoveFrom(s, rn, p, X) ==
    LET r == Rel[rn] IN
    IF ~Exists(s, r.pk, p) \/ \E x \in X : ~Exists(s, r.ck, x) \/ s[r.back][x] # p THEN Refuse(s)
    ELSE LET s1 == FoldSeq(LAMBDA acc, x : DetachOne(acc, rn, p, x), s, SetToSeq(X))
         IN Ok([s1 EXCEPT ![r.list][p] = Without(@, X)])
Reorder(s, rn, p, q) ==
    LET r == Rel[rn] IN
    IF ~Exists(s, r.pk, p) \/ ~NoDup(q) \/ SeqSet(q) # SeqSet(s[r.list][p]) THEN Refuse(s)
    ELSE Ok([s EXCEPT ![r.list][p] = q])
ReorderWirePins(s, w, q) ==    \* q a sequence of pin references, proxies compare by value
    LET sq == [j \in DOMAIN q |-> StoredRef(q[j])] IN
    IF ~(w \in IdsW(s)) \/ ~NoDup(sq) \/ SeqSet(sq) # SeqSet(s.wirePins[w]) THEN Refuse(s)
    ELSE Ok([s EXCEPT !.wirePins[w] = sq])

(* create_X: constructor + add, refused as a whole when the add is refused  *)
CreateIn(s, rn, p, nm) ==
    LET r == Rel[rn]
        s1 == NewOf(s, r.ck, nm)
        x == CountOf(s1, r.ck)
        res == AddTo(s1, rn, p, x, NoPos)
    IN IF ~Exists(s, r.pk, p) \/ res.out # "ok" THEN Refuse(s) ELSE OkRet(res.s, <<x>>)
RECURSIVE CreateMany(_, _, _, _)
CreateMany(s, rn, p, n) ==     \* create_pins / create_wires
    IF n = 0 THEN s ELSE CreateMany(CreateIn(s, rn, p, NoVal).s, rn, p, n - 1)

CreateWith(s, rn, sub, p, nm, n) ==     \* create_port(pins=n) / create_cable(wires=n)
    LET r1 == CreateIn(s, rn, p, nm) IN
    IF r1.out # "ok" THEN r1 ELSE OkRet(CreateMany(r1.s, sub, r1.ret[1], n), r1.ret)

---------------------------------------------------------------------------
(* instance.reference = d | None *)
SetReference(s, i, d) ==
    IF ~(i \in IdsI(s)) \/ ~(d = None \/ d \in IdsD(s)) THEN Refuse(s)
    ELSE LET old == s.instRef[i] IN
    IF d = None THEN
        LET s1 == FoldSeq(LAMBDA acc, e : IF e.wire = None THEN acc
                              ELSE [acc EXCEPT !.wirePins[e.wire] = RemoveFirst(@, OPin(i, e.ip))],
                          s, s.instPins[i])
            s2 == [s1 EXCEPT !.instPins[i] = <<>>, !.instRef[i] = None]
        IN Ok(IF old = None THEN s2 ELSE [s2 EXCEPT !.defRefs[old] = @ \ {i}])
    ELSE IF old = None THEN
        LET pins == PinsOfDef(s, d) IN
        Ok([s EXCEPT !.instPins[i] = [j \in DOMAIN pins |-> MkOP(i, pins[j], None)],
                     !.defRefs[d] = @ \cup {i}, !.instRef[i] = d])
    ELSE
        LET op == s.defPorts[old]  np == s.defPorts[d] IN
        IF Len(op) # Len(np) \/ \E j \in DOMAIN op : Len(s.portPins[op[j]]) # Len(s.portPins[np[j]])
        THEN Refuse(s)
        ELSE LET oq == PinsOfDef(s, old)  nq == PinsOfDef(s, d)
                 map(q) == IF q \in SeqSet(oq) THEN nq[MinOf({j \in DOMAIN oq : oq[j] = q})] ELSE q
                 wireOfOld(q) == OPWire(s, i, q)
                 \* outer pins are popped and re-inserted in port order; keys that are not
                 \* pins of the old definition (none in a well-formed state) stay in front
                 rest == SelectSeq(s.instPins[i], LAMBDA e : e.ip \notin SeqSet(oq))
                 moved == [j \in DOMAIN oq |-> MkOP(i, nq[j], wireOfOld(oq[j]))]
                 s1 == [s EXCEPT !.instPins[i] = rest \o moved]
                 s2 == [s1 EXCEPT !.wirePins = [w \in DOMAIN @ |-> [j \in DOMAIN @[w] |->
                           IF @[w][j].k = "o" /\ @[w][j].i = i THEN OPin(i, map(@[w][j].q)) ELSE @[w][j]]]]
             IN IF \E q \in SeqSet(oq) : ~HasOP(s, i, q) THEN Refuse(s)
                ELSE Ok([s2 EXCEPT !.defRefs = [dd \in DOMAIN @ |->
                              IF dd = d THEN @[dd] \cup {i} ELSE IF dd = old THEN @[dd] \ {i} ELSE @[dd]],
                                   !.instRef[i] = d])

(* definition.create_child(name, reference=d) *)
CreateChild(s, p, nm, d) ==
    LET s1 == NewI(s, nm)
        i == NumI(s1)
        res == AddTo(s1, "DI", p, i, NoPos)
    IN IF ~(p \in IdsD(s)) \/ ~(d = None \/ d \in IdsD(s)) \/ res.out # "ok" THEN Refuse(s)
       ELSE OkRet(SetReference(res.s, i, d).s, <<i>>)

(* netlist.top_instance = x   (x: None | instance | definition) *)
ClearOldTop(s, n) == IF s.nlTop[n] = None THEN s ELSE [s EXCEPT !.instTop[s.nlTop[n]] = FALSE]
SetTopInst(s, n, i) ==
    IF ~(n \in IdsN(s)) \/ ~(i = None \/ i \in IdsI(s)) THEN Refuse(s)
    ELSE LET s1 == [ClearOldTop(s, n) EXCEPT !.nlTop[n] = i] IN
         Ok(IF i = None THEN s1 ELSE [s1 EXCEPT !.instTop[i] = TRUE])
(* netlist.set_top_instance(<Instance>) - the form the EBLIF reader uses: the link is written, the is_top_instance *)
(* flags are left alone (what the code does)                                                                      *)
SetTopInstM(s, n, i) ==
    IF ~(n \in IdsN(s)) \/ ~(i = None \/ i \in IdsI(s)) THEN Refuse(s)
    ELSE Ok([s EXCEPT !.nlTop[n] = i])
(* netlist.set_top_instance(<Definition>, instance_name): a new instance of d, NAMED instance_name, becomes the top; *)
(* the definition keeps its own name                                                                              *)
SetTopDefM(s, n, d, nm) ==
    IF ~(n \in IdsN(s)) \/ ~(d \in IdsD(s)) THEN Refuse(s)
    ELSE LET s1 == NewI(ClearOldTop(s, n), NoVal)
             i == NumI(s1)
             s2 == SetReference(s1, i, d).s
             s3 == [s2 EXCEPT !.nlTop[n] = i, !.instTop[i] = TRUE]
         IN OkRet([s3 EXCEPT !.instData[i].name = nm], <<i>>)
SetTopDef(s, n, d) ==
    IF ~(n \in IdsN(s)) \/ ~(d \in IdsD(s)) THEN Refuse(s)
    ELSE LET s1 == NewI(ClearOldTop(s, n), NoVal)
             i == NumI(s1)
             s2 == SetReference(s1, i, d).s
         IN OkRet([s2 EXCEPT !.nlTop[n] = i, !.instTop[i] = TRUE], <<i>>)

---------------------------------------------------------------------------
(* element data *)
SetDataField(s, kind, x, key, v) == [s EXCEPT ![DataField[kind]][x][key] = v]
SetItem(s, kind, x, key, v) ==
    IF ~(kind \in FirstClass) \/ ~Exists(s, kind, x) THEN Refuse(s)
    ELSE LET d == DataOf(s, kind, x)  p == ParentOf(s, kind, x) IN
    CASE key = "ns" ->
           IF d.ns = v THEN Ok(s)
           ELSE IF p # None \/ v \notin Policies \/ ~Compliant(s, v, kind, x) THEN Refuse(s)
           ELSE Ok(SetNsOn(s, Subtree(s, kind, x), v))
      [] key \in {"name", "eid"} ->
           IF d.ns = "EDIF" /\ key = "eid" /\ ~EdifLegal(v) THEN Refuse(s)
           ELSE IF p # None /\ HasNamespace(s, ParentKind(kind), p) /\ Collides(s, kind, p, x, key, v)
           THEN Refuse(s)
           ELSE Ok(SetDataField(s, kind, x, key, v))
      [] OTHER -> Ok(SetDataField(s, kind, x, key, v))
DelItem(s, kind, x, key) ==          \* del e[key] and e.pop(key)
    IF ~(kind \in FirstClass) \/ ~Exists(s, kind, x) THEN Refuse(s)
    ELSE LET d == DataOf(s, kind, x)  p == ParentOf(s, kind, x) IN
    IF key = "ns" /\ p # None THEN Refuse(s)
    ELSE IF d[key] = NoVal THEN Refuse(s)
    ELSE IF key = "ns" THEN Ok(SetNsOn(s, Subtree(s, kind, x), NoVal))
    ELSE Ok(SetDataField(s, kind, x, key, NoVal))
DelName(s, kind, x) ==               \* del e.name: silently nothing when unnamed
    IF ~(kind \in FirstClass) \/ ~Exists(s, kind, x) THEN Refuse(s)
    ELSE Ok(SetDataField(s, kind, x, "name", NoVal))

SetAttr(s, kind, x, key, v) ==       \* bundle attributes of ports ("P") and cables ("C")
    LET f == IF kind = "P" THEN "portAttr" ELSE "cabAttr"
        items == IF kind = "P" THEN s.portPins[x] ELSE s.cabWires[x] IN
    IF ~(kind \in {"P", "C"}) \/ ~Exists(s, kind, x) THEN Refuse(s)
    ELSE IF key = "scalar" /\ v = TRUE /\ Len(items) > 1 THEN Refuse(s)
    ELSE Ok([s EXCEPT ![f][x][key] = v])

---------------------------------------------------------------------------
(* The transition function.  A call is a record with field `op` and the     *)
(* arguments that operation takes.                                          *)
Apply(s, c) ==
    CASE c.op = "new"       -> OkRet(NewOf(s, c.kind, c.name), <<CountOf(s, c.kind) + 1>>)
      [] c.op = "create"    -> IF c.rel = "DP" /\ c.n > 0 THEN CreateWith(s, "DP", "PQ", c.p, c.name, c.n)
                               ELSE IF c.rel = "DC" /\ c.n > 0 THEN CreateWith(s, "DC", "CW", c.p, c.name, c.n)
                               ELSE CreateIn(s, c.rel, c.p, c.name)
      [] c.op = "create_n"  -> IF ~Exists(s, Rel[c.rel].pk, c.p) THEN Refuse(s)
                               ELSE Ok(CreateMany(s, c.rel, c.p, c.n))
      [] c.op = "create_child" -> CreateChild(s, c.p, c.name, c.ref)
      [] c.op = "add"       -> AddTo(s, c.rel, c.p, c.x, c.pos)
      [] c.op = "remove"    -> RemoveOf(s, c.rel, c.p, c.x)
      [] c.op = "remove_from" -> RemoveFrom(s, c.rel, c.p, c.xs)
      [] c.op = "reorder"   -> Reorder(s, c.rel, c.p, c.seq)
      [] c.op = "connect"   -> Connect(s, c.w, c.pin, c.pos)
      [] c.op = "disconnect" -> Disconnect(s, c.w, c.pin)
      [] c.op = "disconnect_from" -> DisconnectFrom(s, c.w, c.pins)
      [] c.op = "reorder_pins" -> ReorderWirePins(s, c.w, c.seq)
      [] c.op = "set_ref"   -> SetReference(s, c.i, c.d)
      [] c.op = "set_top"   -> SetTopInst(s, c.n, c.i)
      [] c.op = "set_top_m" -> SetTopInstM(s, c.n, c.i)
      [] c.op = "set_top_def" -> SetTopDef(s, c.n, c.d)
      [] c.op = "set_top_dm" -> SetTopDefM(s, c.n, c.d, c.name)
      [] c.op = "set_item"  -> SetItem(s, c.kind, c.x, c.key, c.val)
      [] c.op = "del_item"  -> DelItem(s, c.kind, c.x, c.key)
      [] c.op = "pop_item"  -> DelItem(s, c.kind, c.x, c.key)
      [] c.op = "set_name"  -> SetItem(s, c.kind, c.x, "name", c.val)
      [] c.op = "del_name"  -> DelName(s, c.kind, c.x)
      [] c.op = "set_name_none" ->     \* e.name = None: un-names a named element, leaves an unnamed one as it is
             IF c.kind \in FirstClass /\ Exists(s, c.kind, c.x) /\ DataOf(s, c.kind, c.x).name # NoVal
             THEN DelName(s, c.kind, c.x)
             ELSE IF c.kind \in FirstClass /\ Exists(s, c.kind, c.x) THEN Ok(s) ELSE Refuse(s)
      [] c.op = "set_attr"  -> SetAttr(s, c.kind, c.x, c.key, c.val)
      [] c.op = "set_lower" -> SetAttr(s, c.kind, c.x, "lower", c.ival)
      [] c.op = "set_dir"   -> SetAttr(s, "P", c.x, "dir", c.ival)
      [] c.op = "mutate_props" ->      \* in-place edit of the nested user value: e["props"][0]["value"] = val
             IF ~(c.kind \in FirstClass) \/ ~Exists(s, c.kind, c.x) \/ DataOf(s, c.kind, c.x).props = NoVal
             THEN Refuse(s) ELSE Ok(SetDataField(s, c.kind, c.x, "props", c.val))
      [] c.op = "drop_prop" ->         \* in-place removal of the last entry of the nested user value
             IF ~(c.kind \in FirstClass) \/ ~Exists(s, c.kind, c.x) \/ DataOf(s, c.kind, c.x).props \notin {"v0", "v1"}
             THEN Refuse(s) ELSE Ok(SetDataField(s, c.kind, c.x, "props", DataOf(s, c.kind, c.x).props \o "#1"))
      [] c.op = "set_default" -> Ok([s EXCEPT !.nsDefault = c.val])
      [] c.op = "reset"     -> Ok(s)

RECURSIVE ApplySeq(_, _)
ApplySeq(s, cs) == IF cs = <<>> THEN s ELSE ApplySeq(Apply(s, Head(cs)).s, Tail(cs))
=============================================================================
