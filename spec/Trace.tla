------------------------------- MODULE Trace -------------------------------
(***************************************************************************)
(* Validation of traces recorded from the implementation.                  *)
(*                                                                         *)
(* The trace is an NDJSON file (IOEnv.TRACE_FILE).  A record is either     *)
(*   [t |-> "reset", state |-> S]            a freshly built state, or     *)
(*   [t |-> "call", pre |-> k, call |-> c, out |-> "ok"|"refused",         *)
(*    same |-> BOOLEAN, state |-> S']        one call of the public API,   *)
(* where k is the line whose state is the call's pre-state and             *)
(* same = TRUE means the projection found the post-state identical to the  *)
(* pre-state (the state is then not repeated).  The full projected state   *)
(* is logged, so nothing is inferred and validation is linear.             *)
(*                                                                         *)
(* Two judgements per record, both by TLC:                                 *)
(*  FAIL  <clause>  a property predicate of Props.tla is false on the      *)
(*                  observed state/transition  (=> verdict: VIOLATION)     *)
(*  DRIFT <what>    the observed transition is not the one IR!Apply        *)
(*                  defines for the logged call   (=> conformance only)    *)
(* The verdict predicates never consult Apply.                             *)
(***************************************************************************)
EXTENDS Scopes, Json, IOUtils, TLCExt

CONSTANTS Strict

T == ndJsonDeserialize(IOEnv.TRACE_FILE)
VARIABLE l

StateOf(js) == [js EXCEPT !.defRefs = [d \in DOMAIN @ |-> SeqSet(@[d])]]
CallOf(c) ==
    CASE c.op = "remove_from"     -> [c EXCEPT !.xs = SeqSet(@)]
      [] c.op = "disconnect_from" -> [c EXCEPT !.pins = SeqSet(@)]
      [] OTHER -> c

Pre(r)  == StateOf(T[r.pre].state)
Post(r) == IF r.same THEN Pre(r) ELSE StateOf(r.state)

StateClauses(s) ==
    << <<"C01_ParentChild", C01_ParentChild(s)>>,
       <<"C01_PinWire", C01_PinWire(s)>>,
       <<"C02_RefSets", C02_RefSets(s)>>,
       <<"C02_OuterPinMirror", C02_OuterPinMirror(s)>>,
       <<"C02_DroppedOffWire", C02_DroppedOffWire(s)>> >>
ActionClauses(pre, c, out, post) ==
    << <<"C01_ReorderPermutes", C01_ReorderPermutes(pre, c, post)>>,
       <<"C02_RepointKeeps", C02_RepointKeeps(pre, c, out, post)>>,
       <<"C14_RefusedUnchanged", C14_RefusedUnchanged(pre, out, post)>> >>

Report(tag, k, cl) ==
    \A j \in DOMAIN cl : IF cl[j][2] THEN TRUE ELSE PrintT(<<tag, k, cl[j][1]>>)

StrictClauses(pre, c, out, post) ==
    LET res == Apply(pre, c) IN
    << <<"outcome", res.out = out>>, <<"state", res.s = post>> >>

CheckRecord(k) ==
    LET r == T[k] IN
    IF r.t = "reset" THEN Report("FAIL", k, StateClauses(StateOf(r.state)))
    ELSE LET pre == Pre(r)  post == Post(r)  c == CallOf(r.call) IN
         /\ (IF r.same THEN TRUE ELSE Report("FAIL", k, StateClauses(post)))
         /\ Report("FAIL", k, ActionClauses(pre, c, r.out, post))
         /\ (IF Strict THEN Report("DRIFT", k, StrictClauses(pre, c, r.out, post)) ELSE TRUE)

Init == l = 0
Next == l < Len(T) /\ l' = l + 1 /\ CheckRecord(l')
Spec == Init /\ [][Next]_l
Accepted == TLCGet("stats").diameter - 1 = Len(T)
Done == IF Accepted THEN PrintT(<<"TRACE-DONE", Len(T)>>) ELSE PrintT(<<"TRACE-INCOMPLETE", TLCGet("stats").diameter - 1, Len(T)>>)
=============================================================================
