------------------------------- MODULE Trace -------------------------------
(***************************************************************************)
(* Validation of traces recorded from the implementation.                  *)
(*                                                                         *)
(* The trace is an NDJSON file (IOEnv.TRACE_FILE).  A record is either     *)
(*   [t |-> "reset", state |-> S]            a freshly built state, or     *)
(*   [t |-> "call", pre |-> k, call |-> c, out |-> "ok"|"refused",         *)
(*    same |-> BOOLEAN, state |-> S']        one call of the public API,   *)
(* where k is the line whose state is the call's pre-state and             *)
(* same = TRUE means the projection found the post-state identical to the  *)
(* pre-state (the state is then not repeated).  The full projected state   *)
(* is logged, so nothing is inferred and validation is linear.             *)
(*                                                                         *)
(* Two judgements per record, both by TLC:                                 *)
(*  FAIL  <clause>  a property predicate of Props.tla is false on the      *)
(*                  observed state/transition  (=> verdict: VIOLATION)     *)
(*  DRIFT <what>    the observed transition is not the one IR!Apply        *)
(*                  defines for the logged call   (=> conformance only)    *)
(* The verdict predicates never consult Apply.                             *)
(***************************************************************************)
EXTENDS PropsF, Json, IOUtils, TLCExt

CONSTANTS Strict

T == ndJsonDeserialize(IOEnv.TRACE_FILE)
VARIABLE l

(* the IR part of a logged state (optional extras such as the lookup table removed) *)
StateOf(js) == LET core == [f \in DOMAIN Empty |-> js[f]] IN
               [core EXCEPT !.defRefs = [d \in DOMAIN @ |-> SeqSet(@[d])]]
LookupOf(js) == IF "lookup" \in DOMAIN js THEN js.lookup ELSE <<>>
CallOf(c) ==
    CASE c.op = "remove_from"     -> [c EXCEPT !.xs = SeqSet(@)]
      [] c.op = "disconnect_from" -> [c EXCEPT !.pins = SeqSet(@)]
      [] c.op = "hq" /\ c.root.t = "S" -> [c EXCEPT !.root.ids = SeqSet(@)]
      [] OTHER -> c

Pre(r)  == StateOf(T[r.pre].state)
Post(r) == IF r.same THEN Pre(r) ELSE StateOf(r.state)
(* the mirror listener's copy, JSON arrays turned into the sets they stand for *)
MirrorNorm(m) == [m EXCEPT !.rel = [rn \in DOMAIN @ |-> SeqSet(@[rn])], !.conn = SeqSet(@)]
HasMirror(r) == "msame" \in DOMAIN r
MirrorAfter(r) == MirrorNorm(IF r.msame THEN T[r.pre].mirror ELSE r.mirror)
FullPre(r)  == T[r.pre].state
FullPost(r) == IF r.same THEN FullPre(r) ELSE r.state

StateClauses(s, lk) ==
    << <<"C10_Unique", C10_Unique(s)>>,
       <<"C10_LegalIds", C10_LegalIds(s)>>,
       <<"C10_LookupAgrees", C10_LookupAgrees(s, lk)>>,
       <<"C01_ParentChild", C01_ParentChild(s)>>,
       <<"C01_PinWire", C01_PinWire(s)>>,
       <<"C02_RefSets", C02_RefSets(s)>>,
       <<"C02_OuterPinMirror", C02_OuterPinMirror(s)>>,
       <<"C02_DroppedOffWire", C02_DroppedOffWire(s)>> >>
ActionClauses(pre, c, out, post, fullpre, fullpost) ==
    << <<"C01_ReorderPermutes", C01_ReorderPermutes(pre, c, post)>>,
       <<"C02_RepointKeeps", C02_RepointKeeps(pre, c, out, post)>>,
       <<"C10_RefusalExact", C10_RefusalExact(pre, c, out)>>,
       <<"C07_Independent", C07_Independent(pre, c, post)>>,
       <<"C14_RefusedUnchanged", C14_RefusedUnchanged(fullpre, out, fullpost)>> >>
QueryClauses(pre, c, ret, info) ==
    << <<"C11_ExactlyOnce", C11_ExactlyOnce(pre, c, ret)>>,
       <<"C11_ValidNamed", C11_ValidNamed(pre, c, info)>>,
       <<"C11_Canonical", C11_Canonical(c, info)>>,
       <<"C11_ValidityTracksEdits", C11_ValidityTracksEdits(pre, c, info)>>,
       \* connectivity is judged on designs whose wires hold only local pins (see Hier!Local)
       <<"C12_All", Local(pre) => C12_All(pre, c, ret)>>,
       <<"C12_Narrow", Local(pre) => C12_Narrow(pre, c, ret)>>,
       <<"C12_PinsOfWire", Local(pre) => C12_PinsOfWire(pre, c, ret)>> >>
RetOf(r)  == IF "ret" \in DOMAIN r THEN r.ret ELSE <<>>
InfoOf(r) == IF "info" \in DOMAIN r THEN r.info ELSE <<>>

Report(tag, k, cl) ==
    \A j \in DOMAIN cl : IF cl[j][2] THEN TRUE ELSE PrintT(<<tag, k, cl[j][1]>>)

StrictClauses(pre, c, out, post, ret) ==
    LET res == ApplyX(pre, c) IN
    << <<"outcome", res.out = out>>, <<"state", res.s = post>>,
       <<"ret", (c.op = "clone" /\ out = "ok") => res.ret = ret>> >>

CheckRecord(k) ==
    LET r == T[k] IN
    IF r.t = "reset" THEN
         /\ Report("FAIL", k, StateClauses(StateOf(r.state), LookupOf(r.state)))
         /\ (IF "mirror" \in DOMAIN r
             THEN Report("FAIL", k, << <<"C19_MirrorExact", C19_MirrorExact(StateOf(r.state), MirrorNorm(r.mirror))>> >>)
             ELSE TRUE)
    ELSE LET pre == Pre(r)  post == Post(r)  c == CallOf(r.call) IN
         /\ (IF r.same THEN TRUE ELSE Report("FAIL", k, StateClauses(post, LookupOf(r.state))))
         /\ Report("FAIL", k, ActionClauses(pre, c, r.out, post, FullPre(r), FullPost(r)))
         /\ (IF c.op \in {"hq", "hcheck"} /\ r.out = "ok" THEN Report("FAIL", k, QueryClauses(pre, c, RetOf(r), InfoOf(r))) ELSE TRUE)
         /\ (IF c.op \in {"uniquify", "flatten"} THEN Report("FAIL", k, TransformClauses(pre, c, r.out, post)) ELSE TRUE)
         /\ (IF c.op = "edif_read" THEN Report("FAIL", k, EdifReadClauses(pre, c, r.out, post, RetOf(r))) ELSE TRUE)
         /\ (IF c.op = "file_read" THEN Report("FAIL", k, FileReadClauses(c, r.out, post, RetOf(r))) ELSE TRUE)
         /\ (IF c.op = "edif_file_read" THEN Report("FAIL", k, EdifFileClauses(c, r.out, post, RetOf(r), r)) ELSE TRUE)
         /\ (IF c.op = "edif_rt" THEN Report("FAIL", k, EdifRtClauses(pre, c, r.out, post, RetOf(r), r)) ELSE TRUE)
         /\ (IF c.op = "edif_rt" THEN Report("FAIL", k, EdifNameClauses(pre, c, r.out, post, RetOf(r), r)) ELSE TRUE)
         /\ (IF c.op = "parse_text" THEN Report("FAIL", k, ParseClauses(pre, c, post, RetOf(r), r)) ELSE TRUE)
         /\ (IF c.op = "compose2" THEN Report("FAIL", k, ComposeClauses(c, r.out, FullPre(r), FullPost(r), r)) ELSE TRUE)
         /\ (IF c.op = "eblif_read" THEN Report("FAIL", k, EblifReadClauses(pre, c, r.out, post, RetOf(r))) ELSE TRUE)
         /\ (IF c.op = "eblif_rt" THEN Report("FAIL", k, EblifRtClauses(pre, c, r.out, post, RetOf(r), r)) ELSE TRUE)
         /\ (IF c.op = "vlog_read" THEN Report("FAIL", k, VlogReadClauses(pre, c, r.out, post, RetOf(r))) ELSE TRUE)
         /\ (IF c.op = "vlog_rt" THEN Report("FAIL", k, VlogRtClauses(pre, c, r.out, post, RetOf(r), r)) ELSE TRUE)
         /\ (IF c.op = "compare" THEN Report("FAIL", k, CompareClauses(pre, c, r)) ELSE TRUE)
         /\ (IF c.op = "q" THEN Report("FAIL", k, QueryFilterClauses(c, r)) ELSE TRUE)
         /\ (IF c.op = "clone" THEN Report("FAIL", k, CloneClauses(pre, c, r.out, post, RetOf(r), FullPost(r))) ELSE TRUE)
         /\ (IF HasMirror(r)
             THEN Report("FAIL", k, << <<"C19_MirrorExact", C19_MirrorExact(post, MirrorAfter(r))>>,
                                       <<"C19_BeforeEffect", C19_BeforeEffect(r.ann)>>,
                                       <<"C19_Transparent", IF "agree" \in DOMAIN r THEN r.agree ELSE TRUE>>,
                                       <<"C19_ReplayExact", c.op \in IROps => C19_ReplayExact(pre, c, r.out, post, r.ann)>> >>)
             ELSE TRUE)
         /\ (IF Strict /\ HasMirror(r) /\ c.op \in IROps
             THEN Report("DRIFT", k, << <<"announcements", AnnouncementsAsModel(pre, c, r.ann)>> >>) ELSE TRUE)
         /\ (IF Strict /\ ~("extra" \in DOMAIN c /\ c.extra) /\ c.op \notin {"other", "file_read", "edif_file_read", "uniquify", "flatten", "q", "edif_read", "edif_rt", "vlog_read", "vlog_rt", "eblif_read", "eblif_rt", "compose2", "parse_text"}
             THEN Report("DRIFT", k, StrictClauses(pre, c, r.out, post, RetOf(r))) ELSE TRUE)

Init == l = 0
Next == l < Len(T) /\ l' = l + 1 /\ CheckRecord(l')
Spec == Init /\ [][Next]_l
Accepted == TLCGet("stats").diameter - 1 = Len(T)
Done == IF Accepted THEN PrintT(<<"TRACE-DONE", Len(T)>>) ELSE PrintT(<<"TRACE-INCOMPLETE", TLCGet("stats").diameter - 1, Len(T)>>)
=============================================================================
