------------------------------ MODULE EvalPair ------------------------------
(* debugging aid: the canons of a netlist before and after a round trip        *)
(* (tools/diffpair.py): kind = "E" (ECanon), "V" (VCanon) or "C" (Canon)       *)
EXTENDS PropsF, Json, IOUtils, TLCExt
J == JsonDeserialize(IOEnv.EVAL_FILE)
StateOfJ(js) == LET core == [f \in DOMAIN Empty |-> js[f]] IN
               [core EXCEPT !.defRefs = [d \in DOMAIN @ |-> SeqSet(@[d])]]
Pick(s, n) == CASE J.kind = "E" -> ECanon(s, n) [] J.kind = "V" -> VCanon(s, n) [] OTHER -> Canon(s, n, TRUE)
ASSUME PrintT(<<"EVAL", ToJson([a |-> Pick(StateOfJ(J.pre), J.n1), b |-> Pick(StateOfJ(J.post), J.n2)])>>)
VARIABLE x
Init == x = 0
Next == FALSE /\ x' = x
=============================================================================
