----------------------------- MODULE Transform -----------------------------
(***************************************************************************)
(* clone of a definition, uniquify and flatten, modelled on                *)
(* spydrnet/ir/definition.py (_clone / clone), spydrnet/uniquify.py and    *)
(* spydrnet/flatten.py: the same work-lists, one recursion step per queue  *)
(* pop, built from the IR primitives (AddTo, RemoveOf, Connect, ...).      *)
(* TLC checks the C08/C09 predicates on these algorithms for every design  *)
(* of the transform scopes; the implementation is judged by the same       *)
(* predicates on its observed (pre, post) pairs.                           *)
(***************************************************************************)
EXTENDS Hier

WiresOfDef(s, d) == FlatSeq([k \in DOMAIN s.defCables[d] |-> s.cabWires[s.defCables[d][k]]])

(* Definition.clone(): a detached copy with the same internal structure; the cloned children are *)
(* entered into the reference sets of the definitions they reference                             *)
CloneDef(s, d) ==
    LET d2 == NumD(s) + 1
        ports == s.defPorts[d]    cables == s.defCables[d]    kids == s.defKids[d]
        oq == PinsOfDef(s, d)     ow == WiresOfDef(s, d)
        mapQ(q) == NumQ(s) + IndexIn(oq, q)
        mapW(w) == IF w = None \/ w \notin SeqSet(ow) THEN None ELSE NumW(s) + IndexIn(ow, w)
        mapI(i) == NumI(s) + IndexIn(kids, i)
        mapP(x) == NumP(s) + IndexIn(ports, x)
        mapC(c) == NumC(s) + IndexIn(cables, c)
        mapRef(r) == IF r.k = "i" THEN IPin(mapQ(r.q)) ELSE OPin(mapI(r.i), r.q)
        s1 == [s EXCEPT
            !.defLib = Append(@, None),
            !.defPorts = Append(@, [j \in DOMAIN ports |-> mapP(ports[j])]),
            !.defCables = Append(@, [j \in DOMAIN cables |-> mapC(cables[j])]),
            !.defKids = Append(@, [j \in DOMAIN kids |-> mapI(kids[j])]),
            !.defRefs = Append(@, {}),
            !.defData = Append(@, s.defData[d]),
            !.portDef = @ \o [j \in DOMAIN ports |-> d2],
            !.portPins = @ \o [j \in DOMAIN ports |-> [k \in DOMAIN s.portPins[ports[j]] |-> mapQ(s.portPins[ports[j]][k])]],
            !.portData = @ \o [j \in DOMAIN ports |-> s.portData[ports[j]]],
            !.portAttr = @ \o [j \in DOMAIN ports |-> s.portAttr[ports[j]]],
            !.pinPort = @ \o [k \in DOMAIN oq |-> mapP(s.pinPort[oq[k]])],
            !.pinWire = @ \o [k \in DOMAIN oq |-> mapW(s.pinWire[oq[k]])],
            !.cabDef = @ \o [j \in DOMAIN cables |-> d2],
            !.cabWires = @ \o [j \in DOMAIN cables |-> [k \in DOMAIN s.cabWires[cables[j]] |-> mapW(s.cabWires[cables[j]][k])]],
            !.cabData = @ \o [j \in DOMAIN cables |-> s.cabData[cables[j]]],
            !.cabAttr = @ \o [j \in DOMAIN cables |-> s.cabAttr[cables[j]]],
            !.wireCable = @ \o [k \in DOMAIN ow |-> mapC(s.wireCable[ow[k]])],
            !.wirePins = @ \o [k \in DOMAIN ow |-> [j \in DOMAIN s.wirePins[ow[k]] |-> mapRef(s.wirePins[ow[k]][j])]],
            !.instParent = @ \o [j \in DOMAIN kids |-> d2],
            !.instRef = @ \o [j \in DOMAIN kids |-> s.instRef[kids[j]]],
            !.instPins = @ \o [j \in DOMAIN kids |->
                                 [k \in DOMAIN s.instPins[kids[j]] |->
                                     MkOP(mapI(kids[j]), s.instPins[kids[j]][k].ip, mapW(s.instPins[kids[j]][k].wire))]],
            !.instTop = @ \o [j \in DOMAIN kids |-> FALSE],
            !.instData = @ \o [j \in DOMAIN kids |-> s.instData[kids[j]]]]
    IN [s1 EXCEPT !.defRefs = [r \in DOMAIN @ |->
            @[r] \cup {mapI(kids[j]) : j \in {jj \in DOMAIN kids : s.instRef[kids[jj]] = r}}]]

---------------------------------------------------------------------------
(* uniquify.py *)
IsUniqueInst(s, i) == Cardinality(s.defRefs[s.instRef[i]]) = 1 \/ IsLeafDef(s, s.instRef[i])
MakeInstanceUnique(s, i) ==
    LET r == s.instRef[i]
        lib == s.defLib[r]
        idx == IndexIn(s.libDefs[lib], r)           \* 1-based = the 0-based position index + 1
        sc == CloneDef(s, r)
        d2 == NumD(sc)
        suffix == "_sdn_unique_" \o ToString(d2)
        named == IF sc.defData[d2].name = NoVal THEN sc
                 ELSE [sc EXCEPT !.defData[d2].name = @ \o suffix,
                                 !.defData[d2].eid = IF @ = NoVal THEN @ ELSE @ \o suffix]
        added == AddTo(named, "LD", lib, d2, idx).s
    IN SetReference(added, i, d2).s
RECURSIVE UniquifyLoop(_, _)
UniquifyLoop(s, queue) ==
    IF queue = <<>> THEN s
    ELSE LET i == Head(queue)
             s1 == IF IsUniqueInst(s, i) THEN s ELSE MakeInstanceUnique(s, i)
         IN UniquifyLoop(s1, Tail(queue) \o s1.defKids[s1.instRef[i]])
Uniquify(s, n) == UniquifyLoop(s, s.defKids[s.instRef[s.nlTop[n]]])

---------------------------------------------------------------------------
(* flatten.py *)
Rename(s, kind, x, prefix) ==
    IF prefix = NoVal THEN s
    ELSE SetDataField(s, kind, x, "name", prefix \o "/" \o DataOf(s, kind, x).name)
BringInstToTop(s, i, prefix, topdef) ==
    LET s1 == RemoveOf(s, "DI", s.instParent[i], i).s
        s2 == Rename(s1, "I", i, prefix)
    IN AddTo(s2, "DI", topdef, i, NoPos).s
BringCableToTop(s, c, prefix, topdef) ==
    LET s1 == RemoveOf(s, "DC", s.cabDef[c], c).s
        s2 == Rename(s1, "C", c, prefix)
    IN AddTo(s2, "DC", topdef, c, NoPos).s
(* _redo_connections for one pin: dissolve the port boundary between the inside and outside wire *)
RedoPin(s, i, q) ==
    LET outw == OPWire(s, i, q)
        inw == s.pinWire[q]
        s1 == IF inw = None THEN s ELSE Disconnect(s, inw, IPin(q)).s
        s2 == IF outw = None THEN s1 ELSE Disconnect(s1, outw, OPin(i, q)).s
        move == IF inw = None THEN <<>> ELSE s2.wirePins[inw]
    IN IF outw = None THEN s2
       ELSE FoldSeq(LAMBDA acc, r : Connect(Disconnect(acc, inw, r).s, outw, r, NoPos).s, s2, move)
RedoConnections(s, i) == FoldSeq(LAMBDA acc, q : RedoPin(acc, i, q), s, PinsOfDef(s, s.instRef[i]))
RECURSIVE FlattenLoop(_, _, _, _)
FlattenLoop(s, queue, topdef, toRemove) ==      \* queue: sequence of <<instance, parent name>>
    IF queue = <<>> THEN FoldSeq(LAMBDA acc, i : RemoveOf(acc, "DI", topdef, i).s, s, toRemove)
    ELSE LET i == Head(queue)[1]
             s1 == BringInstToTop(s, i, Head(queue)[2], topdef)
             r == s1.instRef[i] IN
         IF IsLeafDef(s1, r) THEN FlattenLoop(s1, Tail(queue), topdef, toRemove)
         ELSE LET nm == s1.instData[i].name
                  q2 == Tail(queue) \o [j \in DOMAIN s1.defKids[r] |-> <<s1.defKids[r][j], nm>>]
                  s2 == FoldSeq(LAMBDA acc, c : BringCableToTop(acc, c, nm, topdef), s1, s1.defCables[r])
                  s3 == RedoConnections(s2, i)
              IN FlattenLoop(s3, q2, topdef, Append(toRemove, i))
Flatten(s, n) ==
    LET topdef == s.instRef[s.nlTop[n]] IN
    FlattenLoop(s, [j \in DOMAIN s.defKids[topdef] |-> <<s.defKids[topdef][j], NoVal>>], topdef, <<>>)
=============================================================================
