------------------------- MODULE ApaParseSession -------------------------
(* ParseSession.tla with Apalache type annotations and an inductive invariant:                 *)
(* unbounded in MaxSteps (any natural number of parser steps).  Checked by                       *)
(*   apalache-mc check --cinit=CInit --init=IndInit --inv=IndInv --length=1 (inductive step)     *)
(*   apalache-mc check --cinit=CInit --init=Init    --inv=IndInv --length=0 (base case)          *)
(*   apalache-mc check --cinit=CInit --init=IndInit --inv=Safety --length=0 (IndInv => safety)   *)
(*   apalache-mc check --cinit=CInitAny ... --inv=IndInv --length=1 must FAIL (vacuity control)  *)
(* run by conform/properties.py:c15_check.                                                       *)
EXTENDS Naturals, Sequences, Apalache

CONSTANTS
    \* @type: Int;
    MaxSteps,
    \* @type: Bool;
    RestoreOnFailure
Formats == {"edif", "verilog", "eblif"}
\* @type: Str => Str;
PolicyOf(f) == IF f = "edif" THEN "EDIF" ELSE "DEFAULT"

VARIABLES
    \* @type: Str;
    policy,
    \* @type: { active: Bool, fmt: Str, saved: Str, step: Int };
    sess,
    \* @type: Seq(Str);
    created

NoSession == [active |-> FALSE, fmt |-> "", saved |-> "", step |-> 0]
Idle == ~sess.active
CInit == MaxSteps \in Nat /\ RestoreOnFailure = TRUE
CInitAny == MaxSteps \in Nat /\ RestoreOnFailure \in BOOLEAN      \* vacuity control: must be refuted
Init == policy = "DEFAULT" /\ sess = NoSession /\ created = <<>>

ParseBegin(f) == /\ Idle
                 /\ sess' = [active |-> TRUE, fmt |-> f, saved |-> policy, step |-> 0]
                 /\ policy' = PolicyOf(f)
                 /\ UNCHANGED created
ParseStep == /\ ~Idle /\ sess.step < MaxSteps
             /\ sess' = [sess EXCEPT !.step = @ + 1]
             /\ UNCHANGED <<policy, created>>
ParseFinish == /\ ~Idle /\ sess.step = MaxSteps
               /\ policy' = sess.saved /\ sess' = NoSession /\ UNCHANGED created
ParseFail == /\ ~Idle
             /\ policy' = (IF RestoreOnFailure THEN sess.saved ELSE policy)
             /\ sess' = NoSession /\ UNCHANGED created
UserCreates == /\ Idle /\ Len(created) < 2
               /\ created' = Append(created, policy)
               /\ UNCHANGED <<policy, sess>>
Next == (\E f \in Formats : ParseBegin(f)) \/ ParseStep \/ ParseFinish \/ ParseFail \/ UserCreates

C15_FreshBehaviour == \A j \in DOMAIN created : created[j] = "DEFAULT"
C15_PolicyWhenIdle == Idle => policy = "DEFAULT"

IndInv ==
    /\ sess.step >= 0 /\ sess.step <= MaxSteps /\ Len(created) <= 2
    /\ (Idle => sess = NoSession /\ policy = "DEFAULT")
    /\ (~Idle => sess.saved = "DEFAULT" /\ sess.fmt \in Formats /\ policy = PolicyOf(sess.fmt))
    /\ C15_FreshBehaviour
IndInit ==
    /\ policy \in {"DEFAULT", "EDIF"}
    /\ sess \in [active : BOOLEAN, fmt : Formats \cup {""}, saved : {"", "DEFAULT", "EDIF"}, step : Nat]
    /\ created = Gen(2)
    /\ IndInv
Safety == C15_PolicyWhenIdle /\ C15_FreshBehaviour
=============================================================================
