------------------------------ MODULE PropsT ------------------------------
(***************************************************************************)
(* Predicates of C08 (uniquify) and C09 (flatten) over an observed         *)
(* (pre-state, post-state) pair.  Both are judged through the elaboration  *)
(* of Hier.tla: an occurrence of an instance is identified by its INDEX    *)
(* PATH (positions in the children lists from the top definition down),    *)
(* which clone-and-repoint preserves, so nothing depends on the ids or     *)
(* names the transformation gives to new definitions.                      *)
(***************************************************************************)
EXTENDS PropsH

IndexPath(s, p) ==       \* p: instance path <<top, i1, ..., ik>> -> <<idx(i1), ..., idx(ik)>>
    [j \in 1..(Len(p) - 1) |-> IndexIn(s.defKids[s.instRef[p[j]]], p[j + 1])]
NamePath(s, p) == [j \in 1..(Len(p) - 1) |-> s.instData[p[j + 1]].name]
IsLeafInst(s, i) == s.instRef[i] # None /\ IsLeafDef(s, s.instRef[i])

(* the instance tree: per index path, the names along it and the leaf cell type (0 if not a leaf) *)
ElabTree(s, n) ==
    {[ip |-> IndexPath(s, p), names |-> NamePath(s, p),
      leaf |-> IF IsLeafInst(s, Last(p)) THEN s.instRef[Last(p)] ELSE None] :
        p \in {pp \in Paths(s, n) : Len(pp) >= 2}}

(* endpoints: bits of leaf-instance pins and of top-level ports *)
PinIndexInDef(s, q) ==   \* <<port position in its definition, bit position in the port>>
    LET x == s.pinPort[q]  d == s.portDef[x] IN <<IndexIn(s.defPorts[d], x), IndexIn(s.portPins[x], q)>>
EndpointOfHPin(s, hp) ==   \* hp = HI(path) \o <<P x>> \o <<Q q>>
    LET p == PathIds(hp)  q == Last(hp)[2] IN
    [ip |-> IndexPath(s, p), pin |-> PinIndexInDef(s, q)]
IsEndpointHPin(s, hp) ==
    LET p == PathIds(hp) IN Len(p) = 1 \/ IsLeafInst(s, Last(p))
(* the partition of connected endpoints: one set of endpoints per hierarchical net that has any *)
NetGroups(s, n) ==
    {g \in {{EndpointOfHPin(s, hp) : hp \in {h \in UNION {HPinsOfWire(s, hw) : hw \in Net(s, w0)} : IsEndpointHPin(s, h)}} :
                w0 \in OccWire(s, n)} : g # {}}
AllEndpoints(s, n) == {EndpointOfHPin(s, hp) : hp \in {h \in OccPin(s, n) : IsEndpointHPin(s, h)}}
Elab(s, n) == [tree |-> ElabTree(s, n), nets |-> NetGroups(s, n), ends |-> AllEndpoints(s, n)]

---------------------------------------------------------------------------
(* C08 *)
C08_Unique(post, n) ==
    \A p \in Paths(post, n) :
        (Len(p) >= 2 /\ post.instRef[Last(p)] # None /\ ~IsLeafInst(post, Last(p))) =>
            post.defRefs[post.instRef[Last(p)]] = {Last(p)}
C08_ElabPreserved(pre, post, n) == Elab(pre, n) = Elab(post, n)
C08_WF(pre, post) == WF(post) /\ (Local(pre) => Local(post))
(* definitions the transformation created: fresh names, in the library of the definition they replace *)
C08_FreshNames(pre, post, n) ==
    LET new == {d \in IdsD(post) : d > NumD(pre)} IN
    /\ \A d \in new : post.defLib[d] # None =>
          \A e \in SeqSet(post.libDefs[post.defLib[d]]) :
              (e # d /\ post.defData[d].name # NoVal) => post.defData[e].name # post.defData[d].name
    /\ \A p \in Paths(pre, n) : \A q \in Paths(post, n) :
          (Len(p) >= 2 /\ Len(p) = Len(q) /\ IndexPath(pre, p) = IndexPath(post, q)
             /\ pre.instRef[Last(p)] # None /\ post.instRef[Last(q)] # None) =>
              post.defLib[post.instRef[Last(q)]] = pre.defLib[pre.instRef[Last(p)]]
C08_Idempotent(pre, post, n) == C08_Unique(pre, n) => post = pre

---------------------------------------------------------------------------
(* C09 *)
RECURSIVE JoinSlash(_)
JoinSlash(q) == IF q = <<>> THEN "" ELSE IF Len(q) = 1 THEN q[1] ELSE q[1] \o "/" \o JoinSlash(Tail(q))
LeafOccs(s, n) == {p \in Paths(s, n) : Len(p) >= 2 /\ IsLeafInst(s, Last(p))}
C09_OnlyLeaves(post, n) ==
    LET t == TopOf(post, n) IN
    t # None /\ post.instRef[t] # None /\
    \A i \in SeqSet(post.defKids[post.instRef[t]]) : IsLeafInst(post, i)
(* exactly one child per leaf occurrence, named by the slash-joined path, same leaf definition and data *)
C09_LeafBijection(pre, post, n) ==
    LET t == TopOf(post, n)
        kids == post.defKids[post.instRef[t]]
        want == {[name |-> JoinSlash(NamePath(pre, p)), ref |-> pre.instRef[Last(p)],
                  k |-> pre.instData[Last(p)].k] : p \in LeafOccs(pre, n)}
        got == {[name |-> post.instData[i].name, ref |-> post.instRef[i], k |-> post.instData[i].k] :
                   i \in SeqSet(kids)} IN
    /\ Cardinality(LeafOccs(pre, n)) = Len(kids)
    /\ want = got
(* two endpoints are connected afterwards iff they were before; endpoints named by leaf name + pin *)
FlatEndpoint(s, n, hp) ==
    LET p == PathIds(hp)  q == Last(hp)[2] IN
    [leaf |-> JoinSlash(NamePath(s, p)), pin |-> PinIndexInDef(s, q)]
FlatGroups(s, n) ==
    {g \in {{FlatEndpoint(s, n, hp) : hp \in {h \in UNION {HPinsOfWire(s, hw) : hw \in Net(s, w0)} : IsEndpointHPin(s, h)}} :
                w0 \in OccWire(s, n)} : g # {}}
C09_NetsPreserved(pre, post, n) ==
    {g \in FlatGroups(pre, n) : Cardinality(g) >= 2} = {g \in FlatGroups(post, n) : Cardinality(g) >= 2}
C09_WF(pre, post) == WF(post) /\ (Local(pre) => Local(post))   \* no wire is left holding a pin of a dissolved instance

(* the elaboration / net oracles of Hier.tla presuppose a well-formed state (every link two-sided): on a      *)
(* result that is not well-formed only the well-formedness clause is reported, the others are not evaluated  *)
TransformClauses(pre, c, out, post) ==
    LET n == c.n IN
    IF c.op = "uniquify" /\ out # "ok" THEN << <<"C08_Accepted", FALSE>> >>     \* uniquify of a well-formed netlist is never refused
    ELSE IF c.op = "uniquify" THEN
      LET wf == C08_WF(pre, post) IN
      << <<"C08_WF", wf>>,
         <<"C08_Unique", wf => C08_Unique(post, n)>>,
         <<"C08_ElabPreserved", wf => C08_ElabPreserved(pre, post, n)>>,
         <<"C08_FreshNames", C08_FreshNames(pre, post, n)>>,
         <<"C08_Idempotent", C08_Idempotent(pre, post, n)>> >>
    ELSE IF c.op = "flatten" /\ out # "ok" /\ C08_Unique(pre, n) /\ WF(pre) THEN
      << <<"C09_Accepted", FALSE>> >>            \* flatten of a well-formed, uniquified netlist is never refused
    ELSE IF c.op = "flatten" /\ out = "ok" /\ C08_Unique(pre, n) THEN
      LET wf == C09_WF(pre, post) IN
      << <<"C09_WF", wf>>,
         <<"C09_OnlyLeaves", C09_OnlyLeaves(post, n)>>,
         <<"C09_LeafBijection", wf => C09_LeafBijection(pre, post, n)>>,
         <<"C09_NetsPreserved", wf => C09_NetsPreserved(pre, post, n)>> >>
    ELSE <<>>
=============================================================================
