--------------------------- MODULE ParseSession ---------------------------
(***************************************************************************)
(* The process-wide side of a reader call (C15).  A parse call saves the   *)
(* active naming policy, switches to the policy of its format, consumes    *)
(* the input step by step and either finishes or is rejected at ANY step;  *)
(* between calls the user edits netlists (which only reads the policy) or  *)
(* starts further parses.                                                  *)
(*                                                                         *)
(* RestoreOnFailure says whether the failure path restores the saved       *)
(* policy (try/finally).  With TRUE the properties below hold; with FALSE  *)
(* TLC produces the three-step counterexample (Begin, Fail, observe) that  *)
(* was found in the EDIF and Verilog readers and repaired.                 *)
(***************************************************************************)
EXTENDS Naturals, Sequences, TLC

CONSTANTS MaxSteps, RestoreOnFailure
Formats == {"edif", "verilog", "eblif"}
PolicyOf == [edif |-> "EDIF", verilog |-> "DEFAULT", eblif |-> "DEFAULT"]

VARIABLES policy,     \* namespace_manager.default
          sess,       \* [active, fmt, saved, step]; active = FALSE means no call is in progress
          created     \* policies given to elements the USER created while idle (what later edits depend on)
vars == <<policy, sess, created>>

NoSession == [active |-> FALSE, fmt |-> "", saved |-> "", step |-> 0]
Idle == ~sess.active
Init == policy = "DEFAULT" /\ sess = NoSession /\ created = <<>>

ParseBegin(f) == /\ Idle
                 /\ sess' = [active |-> TRUE, fmt |-> f, saved |-> policy, step |-> 0]
                 /\ policy' = PolicyOf[f]
                 /\ UNCHANGED created
ParseStep == /\ ~Idle /\ sess.step < MaxSteps
             /\ sess' = [sess EXCEPT !.step = @ + 1]
             /\ UNCHANGED <<policy, created>>
ParseFinish == /\ ~Idle /\ sess.step = MaxSteps
               /\ policy' = sess.saved /\ sess' = NoSession /\ UNCHANGED created
ParseFail == /\ ~Idle                       \* the input is rejected at this step, whichever it is
             /\ policy' = (IF RestoreOnFailure THEN sess.saved ELSE policy)
             /\ sess' = NoSession /\ UNCHANGED created
UserCreates == /\ Idle /\ Len(created) < 2     \* a new element takes the process default as its policy
               /\ created' = Append(created, policy)
               /\ UNCHANGED <<policy, sess>>
Next == (\E f \in Formats : ParseBegin(f)) \/ ParseStep \/ ParseFinish \/ ParseFail \/ UserCreates
Spec == Init /\ [][Next]_vars /\ WF_vars(ParseStep \/ ParseFinish \/ ParseFail)

(* every completed call, accepted or rejected, leaves the policy it found *)
C15_PolicyRestored == [][(~Idle /\ Idle') => policy' = sess.saved]_vars
(* hence whatever the user creates between calls behaves as in a fresh process *)
C15_FreshBehaviour == \A j \in DOMAIN created : created[j] = "DEFAULT"
C15_PolicyWhenIdle == Idle => policy = "DEFAULT"
(* a call always comes to an end *)
C15_Terminates == (~Idle) ~> Idle
=============================================================================
