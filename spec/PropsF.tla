------------------------------ MODULE PropsF ------------------------------
(***************************************************************************)
(* Predicates of the file-format properties.  A format operation is        *)
(* observed as (pre-state, call, post-state, returned netlist id, extras); *)
(* the designs are compared through Canon of Fmt.tla.                      *)
(*   edif_read  render netlist c.n with the independent writer, parse it   *)
(*              with the real reader                       (C05)           *)
(*   edif_rt    write netlist c.n with the real writer, read the file with *)
(*              the independent reader and the real reader (C03, C16, C17) *)
(***************************************************************************)
EXTENDS PropsQ, Fmt

(* the canon an independent reader extracted from a file: JSON lists -> the sets they stand for *)
FileCanon(fc) ==
    [name |-> fc.name, top |-> fc.top,
     libs |-> {[name |-> l.name,
                cells |-> {[name |-> c.name, ports |-> c.ports, insts |-> SeqSet(c.insts),
                            nets |-> SeqSet(c.nets)] : c \in SeqSet(l.cells)}] : l \in SeqSet(fc.libs)}]

(* the quantifier domain of C03: every element named, ports and cables non-empty, scalar bundles based at 0 *)
DomC03(s, n) ==
    LET side == SideElems(s, n) IN
    /\ \A c \in side.C : /\ s.cabWires[c] # <<>> /\ s.cabData[c].name # NoVal
                          /\ (IsScalarObs(s.cabAttr[c], s.cabWires[c]) => s.cabAttr[c].lower = 0)
    /\ \A p \in side.P : /\ s.portPins[p] # <<>> /\ s.portData[p].name # NoVal
                          /\ (IsScalarObs(s.portAttr[p], s.portPins[p]) => s.portAttr[p].lower = 0)
                          /\ s.portAttr[p].lower = 0
    /\ \A i \in side.I : s.instData[i].name # NoVal
    /\ \A d \in side.D : s.defData[d].name # NoVal
    /\ \A l \in side.L : s.libData[l].name # NoVal
C05_Exact(pre, c, post, ret) ==
    (c.op = "edif_read" /\ Len(ret) = 1) => Canon(post, ret[1], TRUE) = Canon(pre, c.n, TRUE)
C05_WF(pre, c, post, ret) ==
    (c.op = "edif_read" /\ Len(ret) = 1) => WF(post) /\ SelfContained(post, ret[1])
C05_Accepted(c, out) == c.op = "edif_read" => out = "ok"
EdifReadClauses(pre, c, out, post, ret) ==
    IF c.op = "edif_read" /\ DomC03(pre, c.n) THEN      \* designs an EDIF text can express
      << <<"C05_Accepted", C05_Accepted(c, out)>>,
         <<"C05_Exact", out = "ok" => C05_Exact(pre, c, post, ret)>>,
         <<"C05_WF", out = "ok" => C05_WF(pre, c, post, ret)>> >>
    ELSE <<>>

C03_ReaderAccepts(c, out, r) == c.op = "edif_rt" => (out = "ok" /\ r.reader_accepts)
C03_RoundTrip(pre, c, post, ret) ==
    (c.op = "edif_rt" /\ Len(ret) = 1) => Canon(post, ret[1], TRUE) = Canon(pre, c.n, TRUE)
C03_FileSaysDesign(pre, c, r) ==
    (c.op = "edif_rt" /\ "filecanon" \in DOMAIN r) => FileCanon(r.filecanon) = Canon(pre, c.n, TRUE)
EdifRtClauses(pre, c, out, post, ret, r) ==
    IF c.op = "edif_rt" /\ DomC03(pre, c.n) THEN
      << <<"C03_ReaderAccepts", C03_ReaderAccepts(c, out, r)>>,
         <<"C03_RoundTrip", (out = "ok" /\ r.reader_accepts) => C03_RoundTrip(pre, c, post, ret)>>,
         <<"C03_FileSaysDesign", out = "ok" => (r.file_readable /\ C03_FileSaysDesign(pre, c, r))>> >>
    ELSE <<>>
=============================================================================
