------------------------------ MODULE PropsF ------------------------------
(***************************************************************************)
(* Predicates of the file-format properties.  A format operation is        *)
(* observed as (pre-state, call, post-state, returned netlist id, extras); *)
(* the designs are compared through Canon of Fmt.tla.                      *)
(*   edif_read  render netlist c.n with the independent writer, parse it   *)
(*              with the real reader                       (C05)           *)
(*   edif_rt    write netlist c.n with the real writer, read the file with *)
(*              the independent reader and the real reader (C03, C16, C17) *)
(***************************************************************************)
EXTENDS PropsQ, Fmt

(* the canon an independent reader extracted from a file: JSON lists -> the sets they stand for *)
FileCanon(fc) ==
    [name |-> fc.name, top |-> fc.top,
     libs |-> {[name |-> l.name,
                cells |-> {[name |-> c.name, ports |-> c.ports, insts |-> SeqSet(c.insts),
                            nets |-> SeqSet(c.nets)] : c \in SeqSet(l.cells)}] : l \in SeqSet(fc.libs)}]

(* the quantifier domain of C03: every element named, ports and cables non-empty, scalar bundles based at 0 *)
DomC03(s, n) ==
    LET side == SideElems(s, n) IN
    /\ \A c \in side.C : /\ s.cabWires[c] # <<>> /\ s.cabData[c].name # NoVal
                          /\ (IsScalarObs(s.cabAttr[c], s.cabWires[c]) => s.cabAttr[c].lower = 0)
    /\ \A p \in side.P : /\ s.portPins[p] # <<>> /\ s.portData[p].name # NoVal
                          /\ (IsScalarObs(s.portAttr[p], s.portPins[p]) => s.portAttr[p].lower = 0)
                          /\ s.portAttr[p].lower = 0
    /\ \A i \in side.I : s.instData[i].name # NoVal
    /\ \A d \in side.D : s.defData[d].name # NoVal
    /\ \A l \in side.L : s.libData[l].name # NoVal
C05_Exact(pre, c, post, ret) ==
    (c.op = "edif_read" /\ Len(ret) = 1) => Canon(post, ret[1], TRUE) = Canon(pre, c.n, TRUE)
C05_WF(pre, c, post, ret) ==
    (c.op = "edif_read" /\ Len(ret) = 1) => WF(post) /\ SelfContained(post, ret[1])
C05_Accepted(c, out) == c.op = "edif_read" => out = "ok"
EdifReadClauses(pre, c, out, post, ret) ==
    IF c.op = "edif_read" /\ DomC03(pre, c.n) THEN      \* designs an EDIF text can express
      << <<"C05_Accepted", C05_Accepted(c, out)>>,
         <<"C05_Exact", out = "ok" => C05_Exact(pre, c, post, ret)>>,
         <<"C05_WF", out = "ok" => C05_WF(pre, c, post, ret)>> >>
    ELSE <<>>

C03_ReaderAccepts(c, out, r) == c.op = "edif_rt" => (out = "ok" /\ r.reader_accepts)
C03_RoundTrip(pre, c, post, ret) ==
    (c.op = "edif_rt" /\ Len(ret) = 1) => Canon(post, ret[1], TRUE) = Canon(pre, c.n, TRUE)
C03_FileSaysDesign(pre, c, r) ==
    (c.op = "edif_rt" /\ "filecanon" \in DOMAIN r) => FileCanon(r.filecanon) = Canon(pre, c.n, TRUE)
EdifRtClauses(pre, c, out, post, ret, r) ==
    IF c.op = "edif_rt" /\ DomC03(pre, c.n) THEN
      << <<"C03_ReaderAccepts", C03_ReaderAccepts(c, out, r)>>,
         <<"C03_RoundTrip", (out = "ok" /\ r.reader_accepts) => C03_RoundTrip(pre, c, post, ret)>>,
         <<"C03_FileSaysDesign", out = "ok" => (r.file_readable /\ C03_FileSaysDesign(pre, c, r))>> >>
    ELSE <<>>
---------------------------------------------------------------------------
(* C17 - identifiers the EDIF writer assigned: legal, and distinct ignoring case among siblings.      *)
(* idc[kind][x] = the characters of EDIF.identifier of element x after the export.                     *)
LowerLetters == {"a","b","c","d","e","f","g","h","i","j","k","l","m","n","o","p","q","r","s","t","u","v","w","x","y","z"}
UpperOf == [a |-> "A", b |-> "B", c |-> "C", d |-> "D", e |-> "E", f |-> "F", g |-> "G", h |-> "H", i |-> "I",
            j |-> "J", k |-> "K", l |-> "L", m |-> "M", n |-> "N", o |-> "O", p |-> "P", q |-> "Q", r |-> "R",
            s |-> "S", t |-> "T", u |-> "U", v |-> "V", w |-> "W", x |-> "X", y |-> "Y", z |-> "Z"]
UpperLetters == {UpperOf[ch] : ch \in LowerLetters}
LowerOfCh(ch) == IF ch \in UpperLetters THEN CHOOSE lo \in LowerLetters : UpperOf[lo] = ch ELSE ch
Digits == {"0","1","2","3","4","5","6","7","8","9"}
IsAlpha(ch) == ch \in LowerLetters \cup UpperLetters
IsIdChar(ch) == IsAlpha(ch) \/ ch \in Digits \/ ch = "_"
LegalIdentifier(id) ==       \* the rule the EDIF naming policy (and the reader) enforces
    /\ Len(id) >= 1
    /\ IF id[1] = "&" THEN Len(id) >= 2 /\ Len(id) <= 256 /\ \A j \in 2..Len(id) : IsIdChar(id[j])
       ELSE Len(id) <= 255 /\ IsAlpha(id[1]) /\ \A j \in 1..Len(id) : IsIdChar(id[j])
FoldId(id) == [j \in DOMAIN id |-> LowerOfCh(id[j])]
SiblingGroups(s, n) ==       \* <<kind, sequence of sibling ids>> for every naming scope below netlist n
    LET Ls == s.nlLibs[n]
        Ds == UNION {SeqSet(s.libDefs[l]) : l \in SeqSet(Ls)} IN
    {<<"L", Ls>>} \cup {<<"D", s.libDefs[l]>> : l \in SeqSet(Ls)}
    \cup {<<"P", s.defPorts[d]>> : d \in Ds} \cup {<<"C", s.defCables[d]>> : d \in Ds} \cup {<<"I", s.defKids[d]>> : d \in Ds}
C17_Legal(s, n, idc) ==
    \A g \in SiblingGroups(s, n) : \A x \in SeqSet(g[2]) : LegalIdentifier(idc[g[1]][x])
C17_DistinctIgnoringCase(s, n, idc) ==
    \A g \in SiblingGroups(s, n) : \A x, y \in SeqSet(g[2]) :
        x # y => FoldId(idc[g[1]][x]) # FoldId(idc[g[1]][y])
EdifNameClauses(pre, c, out, post, ret, r) ==
    IF c.op = "edif_rt" /\ out = "ok" /\ "idc" \in DOMAIN r THEN
      << <<"C17_Legal", C17_Legal(post, c.n, r.idc)>>,
         <<"C17_DistinctIgnoringCase", C17_DistinctIgnoringCase(post, c.n, r.idc)>>,
         <<"C17_Reexport", r.reader_accepts /\ C03_RoundTrip(pre, c, post, ret)>> >>
    ELSE IF c.op = "edif_rt" THEN << <<"C17_Reexport", FALSE>> >>
    ELSE <<>>
=============================================================================
