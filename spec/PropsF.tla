------------------------------ MODULE PropsF ------------------------------
(***************************************************************************)
(* Predicates of the file-format properties.  A format operation is        *)
(* observed as (pre-state, call, post-state, returned netlist id, extras); *)
(* the designs are compared through Canon of Fmt.tla.                      *)
(*   edif_read  render netlist c.n with the independent writer, parse it   *)
(*              with the real reader                       (C05)           *)
(*   edif_rt    write netlist c.n with the real writer, read the file with *)
(*              the independent reader and the real reader (C03, C16, C17) *)
(***************************************************************************)
EXTENDS PropsQ, Fmt

(* the canon an independent reader extracted from a file: JSON lists -> the sets they stand for *)
FileCanon(fc) ==
    [name |-> fc.name, top |-> fc.top,
     libs |-> {[name |-> l.name,
                cells |-> {[name |-> c.name, ports |-> c.ports, insts |-> SeqSet(c.insts),
                            nets |-> SeqSet(c.nets)] : c \in SeqSet(l.cells)}] : l \in SeqSet(fc.libs)}]

(* the quantifier domain of C03: every element named, ports and cables non-empty, scalar bundles based at 0 *)
DomC03(s, n) ==
    LET side == SideElems(s, n) IN
    /\ \A c \in side.C : /\ s.cabWires[c] # <<>> /\ s.cabData[c].name # NoVal
                          /\ (IsScalarObs(s.cabAttr[c], s.cabWires[c]) => s.cabAttr[c].lower = 0)
    /\ \A p \in side.P : /\ s.portPins[p] # <<>> /\ s.portData[p].name # NoVal
                          /\ (IsScalarObs(s.portAttr[p], s.portPins[p]) => s.portAttr[p].lower = 0)
                          /\ s.portAttr[p].lower = 0
    /\ \A i \in side.I : s.instData[i].name # NoVal
    /\ \A d \in side.D : s.defData[d].name # NoVal
    /\ \A l \in side.L : s.libData[l].name # NoVal
C05_Exact(pre, c, post, ret) ==
    (c.op = "edif_read" /\ Len(ret) = 1) => Canon(post, ret[1], TRUE) = Canon(pre, c.n, TRUE)
C05_WF(pre, c, post, ret) ==
    (c.op = "edif_read" /\ Len(ret) = 1) => WF(post) /\ SelfContained(post, ret[1])
C05_Accepted(c, out) == c.op = "edif_read" => out = "ok"
EdifReadClauses(pre, c, out, post, ret) ==
    IF c.op = "edif_read" /\ DomC03(pre, c.n) THEN      \* designs an EDIF text can express
      << <<"C05_Accepted", C05_Accepted(c, out)>>,
         <<"C05_Exact", out = "ok" => C05_Exact(pre, c, post, ret)>>,
         <<"C05_WF", out = "ok" => C05_WF(pre, c, post, ret)>> >>
    ELSE <<>>

(* a bundled example file: the independent reader's canon of the text against the real reader's netlist *)
NoPortBase(cn) ==    \* EDIF port arrays carry no base index: it is not compared for files from outside
    [cn EXCEPT !.libs = {[l EXCEPT !.cells = {[cc EXCEPT !.ports = [j \in DOMAIN cc.ports |-> [cc.ports[j] EXCEPT !.lower = 0]]]
                                              : cc \in l.cells}] : l \in cn.libs}]
EdifFileClauses(c, out, post, ret, r) ==
    IF c.op = "edif_file_read" THEN
      << <<"C05_Accepted", out = "ok" /\ Len(ret) = 1>>,
         <<"C05_Exact", (out = "ok" /\ Len(ret) = 1 /\ r.file_readable) => NoPortBase(FileCanon(r.filecanon)) = NoPortBase(Canon(post, ret[1], TRUE))>>,
         <<"C05_WF", (out = "ok" /\ Len(ret) = 1) => (WF(post) /\ SelfContained(post, ret[1]))>> >>
    ELSE <<>>

(* a bundled .v / .eblif example: accepted, well-formed, self-contained (no independent reader of these formats) *)
FileReadClauses(c, out, post, ret) ==
    IF c.op = "file_read" THEN
      LET id == IF c.fmt = "vlog" THEN "C06" ELSE "C18" IN
      << <<id \o "_Accepted", out = "ok" /\ Len(ret) = 1>>,
         <<id \o "_WF", (out = "ok" /\ Len(ret) = 1) => (WF(post) /\ SelfContained(post, ret[1]))>> >>
    ELSE <<>>

C03_ReaderAccepts(c, out, r) == c.op = "edif_rt" => (out = "ok" /\ r.reader_accepts)
C03_RoundTrip(pre, c, post, ret) ==
    (c.op = "edif_rt" /\ Len(ret) = 1) => Canon(post, ret[1], TRUE) = Canon(pre, c.n, TRUE)
C03_FileSaysDesign(pre, c, r) ==
    (c.op = "edif_rt" /\ "filecanon" \in DOMAIN r) => FileCanon(r.filecanon) = Canon(pre, c.n, TRUE)
EdifRtClauses(pre, c, out, post, ret, r) ==
    IF c.op = "edif_rt" /\ DomC03(pre, c.n) THEN
      << <<"C03_ReaderAccepts", C03_ReaderAccepts(c, out, r)>>,
         <<"C03_RoundTrip", (out = "ok" /\ r.reader_accepts) => C03_RoundTrip(pre, c, post, ret)>>,
         <<"C03_FileSaysDesign", out = "ok" => (r.file_readable /\ C03_FileSaysDesign(pre, c, r))>> >>
    ELSE <<>>
---------------------------------------------------------------------------
(* Verilog (C06 reader, C04 write-then-read): the design as spydrnet represents Verilog - every module     *)
(* port has a same-named cable, position 0 is the least significant bit, constants are cables named        *)
(* \<const0> / \<const1>.  VCanon keeps per module the declared ports, the cables with width and base      *)
(* index, the instances with their module, and per cable bit the SET of endpoints; cells of all libraries  *)
(* are pooled (primitives may live in another library), the assignment library is compared by count.       *)
IsAssignDef(s, d) == LET nm == s.defData[d].name IN Len(nm) >= 22 /\ SubSeq(nm, 1, 22) = "SDN_VERILOG_ASSIGNMENT"
VDefs(s, n) == {d \in UNION {SeqSet(s.libDefs[l]) : l \in SeqSet(s.nlLibs[n])} : ~IsAssignDef(s, d)}
StripEsc(nm) == IF Len(nm) > 1 /\ SubSeq(nm, 1, 1) = "\\" THEN SubSeq(nm, 2, Len(nm)) ELSE nm   \* \name and name are one identifier
(* attributes / parameters: a design says them through the user key k (attribute A = k) and, for instances, *)
(* props (parameter P = props); a Verilog-read netlist carries them in VERILOG.InlineConstraints / Parameters *)
VAttrOf(d, isInst) ==
    IF d.vattr # NoVal THEN d.vattr
    \* the attribute value is written as a quoted string with white space inside: "k<tab>w" on instances, "k  w" on wires
    ELSE LET a == IF d.k = NoVal THEN "" ELSE "attr:A=" \o d.k \o (IF isInst THEN "\tw" ELSE "  w")
             p == IF ~isInst \/ d.props = NoVal THEN "" ELSE "param:P=" \o d.props
         IN IF a # "" /\ p # "" THEN a \o ";" \o p ELSE a \o p
VInst(s, i) == [name |-> StripEsc(s.instData[i].name), ref |-> StripEsc(NameOfD(s, s.instRef[i])), attr |-> VAttrOf(s.instData[i], TRUE)]
IsConstCable(s, c) == s.cabData[c].name \in {"\\<const0>", "\\<const1>"}
(* a port is header-aliased when some bit of it meets another net (or another bit) than its same-named one *)
AliasedPorts(s, d) ==
    {p \in SeqSet(s.defPorts[d]) : \E k \in DOMAIN s.portPins[p] :
        LET w == s.pinWire[s.portPins[p][k]] IN
        w # None /\ (s.wireCable[w] = None \/ s.cabData[s.wireCable[w]].name # s.portData[p].name
                        \/ IndexIn(s.cabWires[s.wireCable[w]], w) # k)}
(* the domain of C06: a single root module, port directions declared *)
DomC06(s, n) ==
    /\ Cardinality({d \in VDefs(s, n) : s.defRefs[d] \ {s.nlTop[n]} = {}}) = 1
    /\ \A d \in VDefs(s, n) : \A j \in DOMAIN s.defPorts[d] : s.portAttr[s.defPorts[d][j]].dir # 0
    \* every port bit meets a net inside its module (its same-named one, or others: a header-aliased port)
    /\ \A d \in VDefs(s, n) : \A p \in SeqSet(s.defPorts[d]) : \A q \in SeqSet(s.portPins[p]) : s.pinWire[q] # None
    \* header-aliased ports are not among the declaration styles C06 lists; the shape the reader documents and its
    \* own tests use - every member of the alias is a scalar net, .a({\\n[1] , k}) - is judged, aliases with
    \* bit-selects of vector nets or a whole vector net are only read (and then judged by C04 as what the reader made)
    /\ \A d \in VDefs(s, n) : \A p \in AliasedPorts(s, d) : \A q \in SeqSet(s.portPins[p]) :
            Len(s.cabWires[s.wireCable[s.pinWire[q]]]) = 1 /\ s.cabAttr[s.wireCable[s.pinWire[q]]].lower = 0
    \* attributes are written on wire declarations and instances: port nets and leaf modules' nets carry none
    /\ \A d \in VDefs(s, n) : \A c \in SeqSet(s.defCables[d]) :
          ((\E p \in SeqSet(s.defPorts[d]) : s.portData[p].name = s.cabData[c].name) \/ IsConstCable(s, c))
              => s.cabData[c].k = NoVal
VCables(s, d) ==      \* a constant net exists in a module only when something is tied to it
    {c \in SeqSet(s.defCables[d]) : ~IsConstCable(s, c) \/ \E w \in SeqSet(s.cabWires[c]) : s.wirePins[w] # <<>>}
AssignInsts(s, d) == {i \in SeqSet(s.defKids[d]) : s.instRef[i] # None /\ IsAssignDef(s, s.instRef[i])}
WireName(s, w) ==     \* <<net name, bit position>> of a wire, or <<"", 0>> for none
    IF w = None \/ s.wireCable[w] = None THEN <<"", 0>>
    ELSE <<StripEsc(s.cabData[s.wireCable[w]].name), IndexIn(s.cabWires[s.wireCable[w]], w) - 1>>
(* a module attribute: a design says it through the cell's user key k (written as the two sets (* A = k *) (* B = 1 *)) *)
VCellAttr(d) == IF d.vattr # NoVal THEN d.vattr ELSE IF d.k = NoVal THEN "" ELSE "attr:A=" \o d.k \o ",B=1"
VCell(s, d) ==
    [name |-> StripEsc(s.defData[d].name), cattr |-> VCellAttr(s.defData[d]),
     ports |-> [j \in DOMAIN s.defPorts[d] |-> PortCanon(s, s.defPorts[d][j])],
     insts |-> {VInst(s, i) : i \in {ii \in SeqSet(s.defKids[d]) : s.instRef[ii] = None \/ ~IsAssignDef(s, s.instRef[ii])}},
     nattr |-> {<<StripEsc(s.cabData[c].name), VAttrOf(s.cabData[c], FALSE)>> : c \in VCables(s, d)},
     \* an assign statement is an instance of SDN_VERILOG_ASSIGNMENT_<width>: its pins appear on the nets under the
     \* anonymous instance name "<assign>", and the statements are counted per width
     nets  |-> {[NetCanon(s, c, FALSE) EXCEPT !.name = StripEsc(@),
                    !.bits = [k \in DOMAIN @ |->
                                {LET r == pr IN
                                 IF r.k = "o" /\ s.instRef[r.i] # None /\ IsAssignDef(s, s.instRef[r.i])
                                 THEN [inst |-> "<assign>", port |-> EndpointOf(s, r).port, bit |-> 0]     \* which bit: see assigns
                                 ELSE [inst |-> IF r.k = "o" THEN StripEsc(s.instData[r.i].name) ELSE "",
                                       port |-> EndpointOf(s, r).port, bit |-> EndpointOf(s, r).bit]
                                 : pr \in {x \in SeqSet(s.wirePins[s.cabWires[c][k]]) : x.k \in {"i", "o"}}}]]
                  : c \in VCables(s, d)},
     \* per assign statement width: how many; and the bit pairs joined (k-th pin of o with k-th pin of i)
     assigns |-> [count |-> {<<nm, Cardinality({i \in SeqSet(s.defKids[d]) : s.instRef[i] # None /\ s.defData[s.instRef[i]].name = nm})>> :
                                nm \in {s.defData[s.instRef[i]].name : i \in AssignInsts(s, d)}},
                  pairs |-> UNION {{<<WireName(s, OPWire(s, i, PinsOfDef(s, s.instRef[i])[k + Len(PinsOfDef(s, s.instRef[i])) \div 2])),
                                      WireName(s, OPWire(s, i, PinsOfDef(s, s.instRef[i])[k]))>> :
                                        k \in 1..(Len(PinsOfDef(s, s.instRef[i])) \div 2)} : i \in AssignInsts(s, d)}]]
VCanon(s, n) == [top |-> StripEsc(TopCanon(s, n).cell), cells |-> {VCell(s, d) : d \in VDefs(s, n)}]

(* never-declared primitives: the reader infers a black box from the instances' named port maps (the ports that  *)
(* are used, widths as connected, no directions).  The inferred cell itself is not compared - its instances, their *)
(* module name and every bit they join are.                                                                        *)
IsVLeaf(s, d) == s.defKids[d] = <<>> /\ \A c \in SeqSet(s.defCables[d]) : \E p \in SeqSet(s.defPorts[d]) : s.portData[p].name = s.cabData[c].name
Undeclared(c) == "undeclared" \in DOMAIN c.opts /\ c.opts.undeclared
WithoutCells(vc, names) == [vc EXCEPT !.cells = {x \in @ : x.name \notin names}]
VlogReadClauses(pre, c, out, post, ret) ==
    IF c.op = "vlog_read" /\ DomC06(pre, c.n) THEN
      LET omitted == IF Undeclared(c) THEN {StripEsc(pre.defData[d].name) : d \in {dd \in VDefs(pre, c.n) : IsVLeaf(pre, dd) /\ pre.defRefs[dd] # {}}}
                     ELSE {} IN
      << <<"C06_Accepted", out = "ok">>,
         <<"C06_Exact", (out = "ok" /\ Len(ret) = 1) => WithoutCells(VCanon(post, ret[1]), omitted) = WithoutCells(VCanon(pre, c.n), omitted)>>,
         <<"C06_WF", (out = "ok" /\ Len(ret) = 1) => (WF(post) /\ SelfContained(post, ret[1]))>> >>
    ELSE <<>>
(* an inferred black box has ports of undefined direction and no nets of its own; Verilog cannot say "undefined", *)
(* the writer declares such ports inout: these cells themselves are not compared across a write-then-read step    *)
(* (their instances and every bit they join are)                                                                   *)
(* cells that hold no net of their own before the step (a primitive declared with its ports in the header, a cell   *)
(* emptied by flatten): the writer declares their ports the ordinary way and the reader then gives every port its *)
(* same-named net - nothing of the design is in those nets, the cells are left out of the comparison              *)
NetlessCells(s, n) == {StripEsc(s.defData[d].name) : d \in {dd \in VDefs(s, n) : VCables(s, dd) = {} /\ s.defKids[dd] = <<>>}}
InferredCells(s, n) == {StripEsc(s.defData[d].name) : d \in {dd \in VDefs(s, n) : \E p \in SeqSet(s.defPorts[dd]) : s.portAttr[p].dir = 0}}
VlogRtClauses(pre, c, out, post, ret, r) ==
    IF c.op = "vlog_rt" THEN
      << <<"C04_ReaderAccepts", out = "ok" /\ r.reader_accepts>>,
         <<"C04_RoundTrip", (out = "ok" /\ r.reader_accepts /\ Len(ret) = 1) =>
                LET skip == InferredCells(pre, c.n) \cup NetlessCells(pre, c.n) IN
                /\ WithoutCells(VCanon(post, ret[1]), skip) = WithoutCells(VCanon(pre, c.n), skip)
                /\ {x.name : x \in VCanon(post, ret[1]).cells} = {x.name : x \in VCanon(pre, c.n).cells}>> >>
    ELSE <<>>

---------------------------------------------------------------------------
(* EBLIF (C18): flat designs.  ECanon keeps the top model's ports, the instances (name = .cname, model,    *)
(* statement type, parameters) and the nets AS SETS OF PINS (net names are not compared: .conn merges and  *)
(* the writer's generated names change them), and the declared primitive models with port directions.      *)
RECURSIVE Ones(_), Zeros(_)
Ones(n) == IF n = 0 THEN "" ELSE "1" \o Ones(n - 1)
Zeros(n) == IF n = 0 THEN "" ELSE "0" \o Zeros(n - 1)
EInfoOf(d, nin) ==  \* a design says the statement type through k ("g" = .gate, "n" = .names, "l" = .latch), an attribute
    \* through k as well (k = "u" / "v": .attr A u), .param INIT - or the cover lines of a .names - through props
    IF d.eb # NoVal THEN d.eb
    ELSE "type=" \o (IF d.k = "g" THEN "gate" ELSE IF d.k = "l" THEN "latch" ELSE IF d.k = "n" THEN "names" ELSE "subckt")
         \o ";cname=" \o d.name
         \o (IF d.k = "n"
             THEN ";covers=" \o (IF d.props = NoVal THEN "" ELSE IF nin = 0 THEN "1 "
                                 ELSE IF d.props = "v0" THEN Ones(nin) \o " 1" ELSE Zeros(nin) \o " 1|" \o Ones(nin) \o " 1")
             ELSE "")
         \o (IF d.k \in {"u", "v"} THEN ";attr:A=" \o d.k ELSE "")
         \o (IF d.props = NoVal \/ d.k = "n" THEN "" ELSE ";param:INIT=" \o d.props)
ETop(s, n) == s.instRef[s.nlTop[n]]
EPinsOfWire(s, w) == {EndpointOf(s, r) : r \in {rr \in SeqSet(s.wirePins[w]) : rr.k \in {"i", "o"}}}
ECanon(s, n) ==
    LET top == ETop(s, n) IN
    [name  |-> s.defData[top].name,
     ports |-> {PortCanon(s, p) : p \in SeqSet(s.defPorts[top])},
     insts |-> {[name |-> s.instData[i].name, model |-> NameOfD(s, s.instRef[i]), info |-> EInfoOf(s.instData[i], IF s.instRef[i] = None THEN 0 ELSE Len(s.defPorts[s.instRef[i]]) - 1)] :
                   i \in SeqSet(s.defKids[top])},
     nets  |-> {g \in {EPinsOfWire(s, w) : w \in UNION {SeqSet(s.cabWires[c]) : c \in SeqSet(s.defCables[top])}} : g # {}},
     prims |-> {[name |-> s.defData[d].name,
                 ports |-> {[name |-> s.portData[p].name, dir |-> s.portAttr[p].dir, width |-> Len(s.portPins[p])] :
                               p \in SeqSet(s.defPorts[d])}] :
                   d \in {s.instRef[i] : i \in SeqSet(s.defKids[top])} \ {None}}]
(* undeclared primitives come back with undefined directions: compare without the directions then *)
ECanonNoDirs(ec) == [ec EXCEPT !.prims = {[p EXCEPT !.ports = {}] : p \in @}]   \* undeclared models: ports are only inferred from use
(* ... but when every formal is written (unconnected ones as formal=unconn) the inferred model has exactly the design's *)
(* port names, and every inferred port has at least one pin                                                             *)
EPortNames(ec) == {<<p.name, q.name>> : <<p, q>> \in UNION {{<<pp, qq>> : qq \in pp.ports} : pp \in ec.prims}}
EblifReadClauses(pre, c, out, post, ret) ==
    IF c.op = "eblif_read" THEN
      << <<"C18_Accepted", out = "ok">>,
         <<"C18_Exact", (out = "ok" /\ Len(ret) = 1) =>
               IF c.opts.declare = "all" THEN ECanon(post, ret[1]) = ECanon(pre, c.n)
               ELSE /\ ECanonNoDirs(ECanon(post, ret[1])) = ECanonNoDirs(ECanon(pre, c.n))
                    /\ (c.opts.unconn = "unconn" =>
                           /\ EPortNames(ECanon(post, ret[1])) = EPortNames(ECanon(pre, c.n))
                           /\ \A p \in ECanon(post, ret[1]).prims : \A q \in p.ports : q.width >= 1)>>,
         <<"C18_WF", (out = "ok" /\ Len(ret) = 1) => (WF(post) /\ SelfContained(post, ret[1]))>> >>
    ELSE <<>>
EblifRtClauses(pre, c, out, post, ret, r) ==
    IF c.op = "eblif_rt" THEN
      << <<"C18_RoundTripAccepted", out = "ok" /\ r.reader_accepts>>,
         <<"C18_RoundTrip", (out = "ok" /\ r.reader_accepts /\ Len(ret) = 1) => ECanon(post, ret[1]) = ECanon(pre, c.n)>> >>
    ELSE <<>>

---------------------------------------------------------------------------
(* C16 - composing does not change the netlist and is repeatable.  Judged on the FULL logged states     *)
(* (including the user data outside the modelled keys, logged as the strings other / emeta).             *)
RelaxData(d) == [f \in DOMAIN d \ {"eid", "emeta"} |-> d[f]]
RelaxEdif(js) ==      \* what the EDIF writer may legitimately touch is forgotten: library / cell order, identifiers, EDIF metadata
    [f \in DOMAIN js \ {"lookup", "badClass"} |->
        CASE f \in {"nlData", "libData", "defData", "portData", "cabData", "instData"} -> [x \in DOMAIN js[f] |-> RelaxData(js[f][x])]
          [] f \in {"nlLibs", "libDefs"} -> [x \in DOMAIN js[f] |-> SeqSet(js[f][x])]
          [] OTHER -> js[f]]
C16_Unchanged(c, fullpre, fullpost) ==
    c.op = "compose2" =>
        IF c.fmt = "edif" THEN RelaxEdif(fullpost) = RelaxEdif(fullpre) ELSE fullpost = fullpre
ComposeClauses(c, out, fullpre, fullpost, r) ==
    IF c.op = "compose2" /\ out = "ok" THEN
      << <<"C16_Unchanged", C16_Unchanged(c, fullpre, fullpost)>>,
         <<"C16_Repeatable", r.hash1 = r.hash2 /\ (("hash_m1" \in DOMAIN r) => (r.hash_m1 = r.hash_m3 /\ r.hash_mk = r.hash1))>>,
         <<"C16_Complete", r.complete /\ r.closed>> >>
    ELSE <<>>

---------------------------------------------------------------------------
(* C15 - rejected input fails cleanly.  One record per corrupted (or valid) text handed to sdn.parse:     *)
(* r.parse in {"ok", "raised", "timeout"}, the policy before / after, the probe bit, and for an accepted  *)
(* text the returned netlist in the post-state.                                                           *)
ParseClauses(pre, c, post, ret, r) ==
    IF c.op = "parse_text" THEN
      << <<"C15_Terminates", r.parse # "timeout">>,
         <<"C15_PolicyRestored", r.policy_after = r.policy_before>>,
         <<"C15_FreshBehaviour", r.probe_same /\ (("parse2" \in DOMAIN r) => r.parse2 = r.parse)>>,
         <<"C15_NoHalfBuilt", (r.parse = "ok" /\ Len(ret) = 1) => (WF(post) /\ SelfContained(post, ret[1]))>>,
         <<"C15_DanglingRejected", (c.kind \in {"dangle", "dangle_name", "crosslib"}) => r.parse # "ok">>,
         <<"C15_ValidAccepted", (c.kind = "none") => r.parse = "ok">> >>
    ELSE <<>>

---------------------------------------------------------------------------
(* C17 - identifiers the EDIF writer assigned: legal, and distinct ignoring case among siblings.      *)
(* idc[kind][x] = the characters of EDIF.identifier of element x after the export.                     *)
LowerLetters == {"a","b","c","d","e","f","g","h","i","j","k","l","m","n","o","p","q","r","s","t","u","v","w","x","y","z"}
UpperOf == [a |-> "A", b |-> "B", c |-> "C", d |-> "D", e |-> "E", f |-> "F", g |-> "G", h |-> "H", i |-> "I",
            j |-> "J", k |-> "K", l |-> "L", m |-> "M", n |-> "N", o |-> "O", p |-> "P", q |-> "Q", r |-> "R",
            s |-> "S", t |-> "T", u |-> "U", v |-> "V", w |-> "W", x |-> "X", y |-> "Y", z |-> "Z"]
UpperLetters == {UpperOf[ch] : ch \in LowerLetters}
LowerOfCh(ch) == IF ch \in UpperLetters THEN CHOOSE lo \in LowerLetters : UpperOf[lo] = ch ELSE ch
Digits == {"0","1","2","3","4","5","6","7","8","9"}
IsAlpha(ch) == ch \in LowerLetters \cup UpperLetters
IsIdChar(ch) == IsAlpha(ch) \/ ch \in Digits \/ ch = "_"
LegalIdentifier(id) ==       \* the rule the EDIF naming policy (and the reader) enforces
    /\ Len(id) >= 1
    /\ IF id[1] = "&" THEN Len(id) >= 2 /\ Len(id) <= 256 /\ \A j \in 2..Len(id) : IsIdChar(id[j])
       ELSE Len(id) <= 255 /\ IsAlpha(id[1]) /\ \A j \in 1..Len(id) : IsIdChar(id[j])
FoldId(id) == [j \in DOMAIN id |-> LowerOfCh(id[j])]
SiblingGroups(s, n) ==       \* <<kind, sequence of sibling ids>> for every naming scope below netlist n
    LET Ls == s.nlLibs[n]
        Ds == UNION {SeqSet(s.libDefs[l]) : l \in SeqSet(Ls)} IN
    {<<"L", Ls>>} \cup {<<"D", s.libDefs[l]>> : l \in SeqSet(Ls)}
    \cup {<<"P", s.defPorts[d]>> : d \in Ds} \cup {<<"C", s.defCables[d]>> : d \in Ds} \cup {<<"I", s.defKids[d]>> : d \in Ds}
C17_Legal(s, n, idc) ==
    \A g \in SiblingGroups(s, n) : \A x \in SeqSet(g[2]) : LegalIdentifier(idc[g[1]][x])
C17_DistinctIgnoringCase(s, n, idc) ==
    \A g \in SiblingGroups(s, n) : \A x, y \in SeqSet(g[2]) :
        x # y => FoldId(idc[g[1]][x]) # FoldId(idc[g[1]][y])
EdifNameClauses(pre, c, out, post, ret, r) ==
    IF c.op = "edif_rt" /\ out = "ok" /\ "idc" \in DOMAIN r THEN
      << <<"C17_Legal", C17_Legal(post, c.n, r.idc)>>,
         <<"C17_DistinctIgnoringCase", C17_DistinctIgnoringCase(post, c.n, r.idc)>>,
         <<"C17_Reexport", r.reader_accepts /\ C03_RoundTrip(pre, c, post, ret)>> >>
    ELSE IF c.op = "edif_rt" THEN << <<"C17_Reexport", FALSE>> >>
    ELSE <<>>
=============================================================================
