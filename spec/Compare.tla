------------------------------ MODULE Compare ------------------------------
(***************************************************************************)
(* What spydrnet.compare.Comparer is documented to examine, as a relation  *)
(* between two netlists of one state: Differs(s, a, b) is TRUE iff netlist *)
(* b differs from netlist a in one of those aspects among NAMED elements   *)
(* (names, counts of libraries / definitions / ports / cables / instances, *)
(* port direction, array-ness and width, cable width, which instance,      *)
(* port and bit each net bit touches, instance reference and properties).  *)
(* Elements are matched by name inside their scope, wires and pins by      *)
(* position, exactly as a user reading the documentation would expect.     *)
(***************************************************************************)
EXTENDS Clone

ByName(s, kind, list, nm) ==      \* members of the sequence `list` (ids of `kind`) that carry name nm
    {x \in SeqSet(list) : DataOf(s, kind, x).name = nm}
NameOfD(s, d) == IF d = None THEN "<none>" ELSE s.defData[d].name
LibNameOfD(s, d) == IF d = None \/ s.defLib[d] = None THEN "<none>" ELSE s.libData[s.defLib[d]].name
IsArrayObs(s, p) == ~IsScalarObs(s.portAttr[p], s.portPins[p])

InstDiffers(s, i, j) ==           \* compare_instances
    \/ s.instData[i].name # s.instData[j].name
    \/ (s.instRef[i] = None) # (s.instRef[j] = None)
    \/ NameOfD(s, s.instRef[i]) # NameOfD(s, s.instRef[j])
    \/ LibNameOfD(s, s.instRef[i]) # LibNameOfD(s, s.instRef[j])
    \/ s.instData[j].props # s.instData[i].props
InnerPinDiffers(s, q, r) ==       \* are_inner_pins_equivalent
    LET p == s.pinPort[q]  o == s.pinPort[r] IN
    \/ (p = None) # (o = None)
    \/ p # None /\ \/ IndexIn(s.portPins[p], q) # IndexIn(s.portPins[o], r)
                   \/ s.portData[p].name # s.portData[o].name
                   \/ NameOfD(s, s.portDef[p]) # NameOfD(s, s.portDef[o])
                   \/ LibNameOfD(s, s.portDef[p]) # LibNameOfD(s, s.portDef[o])
PinRefDiffers(s, x, y) ==         \* one entry of a wire's pin list against its counterpart
    \/ x.k # y.k
    \/ x.k = "i" /\ InnerPinDiffers(s, x.q, y.q)
    \/ x.k = "o" /\ \/ s.instData[x.i].name # s.instData[y.i].name
                    \/ NameOfD(s, s.instRef[x.i]) # NameOfD(s, s.instRef[y.i])
                    \/ LibNameOfD(s, s.instRef[x.i]) # LibNameOfD(s, s.instRef[y.i])
                    \/ NameOfD(s, s.instParent[x.i]) # NameOfD(s, s.instParent[y.i])
                    \/ InnerPinDiffers(s, x.q, y.q)
CableDiffers(s, c, e) ==
    \/ Len(s.cabWires[c]) # Len(s.cabWires[e])
    \/ \E k \in DOMAIN s.cabWires[c] \cap DOMAIN s.cabWires[e] :
          LET w == s.cabWires[c][k]  v == s.cabWires[e][k] IN
          \/ Len(s.wirePins[w]) # Len(s.wirePins[v])
          \/ \E j \in DOMAIN s.wirePins[w] \cap DOMAIN s.wirePins[v] : PinRefDiffers(s, s.wirePins[w][j], s.wirePins[v][j])
PortDiffers(s, p, o) ==
    \/ s.portAttr[p].dir # s.portAttr[o].dir
    \/ IsArrayObs(s, p) # IsArrayObs(s, o)
    \/ Len(s.portPins[p]) # Len(s.portPins[o])
NamedPartDiffers(s, kind, la, lb, PairDiffers(_, _)) ==   \* every named member of la needs an equal counterpart in lb
    \/ Len(la) # Len(lb)
    \/ \E x \in SeqSet(la) :
          LET nm == DataOf(s, kind, x).name IN
          nm # NoVal /\ \/ ByName(s, kind, lb, nm) = {}
                        \/ \E y \in ByName(s, kind, lb, nm) : PairDiffers(x, y)
DefDiffers(s, d, e) ==
    \/ NamedPartDiffers(s, "P", s.defPorts[d], s.defPorts[e], LAMBDA x, y : PortDiffers(s, x, y))
    \/ NamedPartDiffers(s, "C", s.defCables[d], s.defCables[e], LAMBDA x, y : CableDiffers(s, x, y))
    \/ NamedPartDiffers(s, "I", s.defKids[d], s.defKids[e], LAMBDA x, y : InstDiffers(s, x, y))
LibDiffers(s, l, m) ==
    NamedPartDiffers(s, "D", s.libDefs[l], s.libDefs[m], LAMBDA x, y : DefDiffers(s, x, y))
Differs(s, a, b) ==
    \/ s.nlData[a].name # s.nlData[b].name
    \/ (s.nlTop[a] = None) # (s.nlTop[b] = None)
    \/ s.nlTop[a] # None /\ s.nlTop[b] # None /\ InstDiffers(s, s.nlTop[a], s.nlTop[b])
    \/ NamedPartDiffers(s, "L", s.nlLibs[a], s.nlLibs[b], LAMBDA x, y : LibDiffers(s, x, y))
=============================================================================
