------------------------------ MODULE Props ------------------------------
(***************************************************************************)
(* The property predicates.  Every predicate takes its state(s) as         *)
(* explicit records so that the SAME text is evaluated by TLC              *)
(*   - on model states/transitions (MC.tla: the design satisfies it), and  *)
(*   - on states/transitions logged from the implementation (Trace.tla:    *)
(*     the code satisfies it on everything observed).                      *)
(* They are written independently of IR!Apply: a predicate never asks what *)
(* the model would have done, only whether the property's clause holds.    *)
(* Observed states may contain things a model state never does (a pin      *)
(* reference [k |-> "x", ...] for an object in a wire's list that is no     *)
(* live pin, ids of unknown elements adopted by the projection), so the     *)
(* predicates are total on such records.                                    *)
(***************************************************************************)
EXTENDS IR

---------------------------------------------------------------------------
(* C01 - ownership and pin-wire links                                       *)

(* every container lists exactly the elements that name it as parent, once *)
C01_RelOK(s, rn) ==
    LET r == Rel[rn] IN
    /\ \A p \in 1..CountOf(s, r.pk) :
         /\ NoDup(s[r.list][p])
         /\ \A x \in SeqSet(s[r.list][p]) : Exists(s, r.ck, x) /\ s[r.back][x] = p
    /\ \A x \in 1..CountOf(s, r.ck) :
         LET p == s[r.back][x] IN
         p # None => Exists(s, r.pk, p) /\ x \in SeqSet(s[r.list][p])
C01_ParentChild(s) == \A rn \in RelNames : C01_RelOK(s, rn)

(* a wire lists only live pins (no detached / foreign / proxy objects) *)
C01_WireListsLive(s) ==
    \A w \in IdsW(s) : \A j \in DOMAIN s.wirePins[w] :
        LET r == s.wirePins[w][j] IN
        \/ r.k = "i" /\ r.q \in IdsQ(s)
        \/ r.k = "o" /\ HasOP(s, r.i, r.q)

(* every pin reports exactly the one wire whose list contains it, once;    *)
(* a wire lists only pins that report it                                    *)
C01_PinWire(s) ==
    /\ \A q \in IdsQ(s) : \A w \in IdsW(s) :
          Count(s.wirePins[w], IPin(q)) = (IF s.pinWire[q] = w THEN 1 ELSE 0)
    /\ \A q \in IdsQ(s) : s.pinWire[q] = None \/ s.pinWire[q] \in IdsW(s)
    /\ \A i \in IdsI(s) : \A j \in DOMAIN s.instPins[i] : \A w \in IdsW(s) :
          LET e == s.instPins[i][j] IN
          /\ e.wire = None \/ e.wire \in IdsW(s)
          /\ Count(s.wirePins[w], OPin(i, e.ip)) = (IF e.wire = w THEN 1 ELSE 0)
    /\ C01_WireListsLive(s)

C01_State(s) == C01_ParentChild(s) /\ C01_PinWire(s)

(* reorder assignments only permute: same members, same multiplicity,      *)
(* whether accepted or refused                                              *)
SameMembers(a, b) == Len(a) = Len(b) /\ \A x \in SeqSet(a) \cup SeqSet(b) : Count(a, x) = Count(b, x)
C01_ReorderPermutes(pre, c, post) ==
    /\ (c.op = "reorder" /\ Exists(pre, Rel[c.rel].pk, c.p)) =>
          SameMembers(pre[Rel[c.rel].list][c.p], post[Rel[c.rel].list][c.p])
    /\ (c.op = "reorder_pins" /\ c.w \in IdsW(pre)) =>
          SameMembers(pre.wirePins[c.w], post.wirePins[c.w])

---------------------------------------------------------------------------
(* C02 - instances mirror their definition                                  *)
C02_RefSets(s) ==
    /\ \A d \in IdsD(s) : \A i \in s.defRefs[d] : i \in IdsI(s) /\ s.instRef[i] = d
    /\ \A i \in IdsI(s) : s.instRef[i] # None =>
          s.instRef[i] \in IdsD(s) /\ i \in s.defRefs[s.instRef[i]]

C02_OuterPinMirror(s) ==
    \A i \in IdsI(s) :
        LET keys == [j \in DOMAIN s.instPins[i] |-> s.instPins[i][j].ip]
            d == s.instRef[i] IN
        /\ NoDup(keys)
        /\ \A j \in DOMAIN s.instPins[i] :
              LET e == s.instPins[i][j] IN e.inst = i /\ e.inner = e.ip /\ e.ok
        /\ IF d = None \/ ~(d \in IdsD(s)) THEN keys = <<>>
           ELSE SeqSet(keys) = SeqSet(PinsOfDef(s, d))

(* an outer pin that went away was taken off its wire first: no wire lists *)
(* a detached outer pin object                                              *)
C02_DroppedOffWire(s) ==
    \A w \in IdsW(s) : \A j \in DOMAIN s.wirePins[w] :
        ~(s.wirePins[w][j].k = "x" /\ s.wirePins[w][j].t = "outer")

C02_State(s) == C02_RefSets(s) /\ C02_OuterPinMirror(s) /\ C02_DroppedOffWire(s)

(* re-pointing to a shape-compatible definition keeps every connection on *)
(* the corresponding pin (same wire, same place in that wire's list)       *)
C02_RepointKeeps(pre, c, out, post) ==
    (c.op = "set_ref" /\ out = "ok" /\ c.i \in IdsI(pre) /\ c.d # None /\ c.d \in IdsD(pre)
        /\ pre.instRef[c.i] # None /\ pre.instRef[c.i] \in IdsD(pre)) =>
    LET oq == PinsOfDef(pre, pre.instRef[c.i])
        nq == PinsOfDef(pre, c.d) IN
    \A j \in DOMAIN oq :
          (Len(oq) = Len(nq) /\ HasOP(pre, c.i, oq[j])) =>
            /\ HasOP(post, c.i, nq[j])
            /\ OPWire(post, c.i, nq[j]) = OPWire(pre, c.i, oq[j])
            /\ LET w == OPWire(pre, c.i, oq[j]) IN
               (w # None /\ w \in IdsW(post)) =>
                  {k \in DOMAIN post.wirePins[w] : post.wirePins[w][k] = OPin(c.i, nq[j])}
                = {k \in DOMAIN pre.wirePins[w] : pre.wirePins[w][k] = OPin(c.i, oq[j])}

(* well-formedness = all state clauses of C01 and C02 *)
WF(s) == C01_State(s) /\ C02_State(s)

---------------------------------------------------------------------------
(* C14 - a refused edit changes nothing (the whole projected state,        *)
(* including reference sets, data, the process default policy and, where   *)
(* logged, the lookup table)                                                *)
C14_RefusedUnchanged(pre, out, post) == out # "ok" => post = pre

---------------------------------------------------------------------------
(* C10 - sibling names stay unique; refusal is exact; lookup agrees with a  *)
(* scan.  The naming relation (Collides, EdifLegal, Compliant) is the one   *)
(* defined in IR.tla by scanning the current siblings - there is no index.  *)
NamedKinds == {"L", "D", "P", "C", "I"}
C10_Unique(s) ==
    \A kind \in NamedKinds : \A p \in 1..CountOf(s, ParentKind(kind)) :
        LET pol == NsOf(s, ParentKind(kind), p)
            sibs == SiblingsOf(s, kind, p) IN
        pol # NoVal =>
          \A a, b \in DOMAIN sibs : a # b =>
             LET da == DataOf(s, kind, sibs[a])  db == DataOf(s, kind, sibs[b]) IN
             /\ ~(da.name # NoVal /\ da.name = db.name)
             /\ pol = "EDIF" => ~(da.eid # NoVal /\ db.eid # NoVal /\ Fold(da.eid) = Fold(db.eid))
C10_LegalIds(s) ==
    \A kind \in FirstClass : \A x \in 1..CountOf(s, kind) :
        LET d == DataOf(s, kind, x) IN (d.ns = "EDIF" /\ d.eid # NoVal) => EdifLegal(d.eid)

(* when exactly a naming-relevant, structurally valid edit must be refused  *)
C10_Applies(pre, c) ==
    \/ c.op = "add" /\ Rel[c.rel].ck \in FirstClass /\ Exists(pre, Rel[c.rel].pk, c.p)
         /\ Exists(pre, Rel[c.rel].ck, c.x) /\ pre[Rel[c.rel].back][c.x] = None
    \/ c.op = "create" /\ Rel[c.rel].ck \in FirstClass /\ Exists(pre, Rel[c.rel].pk, c.p)
    \/ c.op = "create_child" /\ c.p \in IdsD(pre) /\ (c.ref = None \/ c.ref \in IdsD(pre))
    \/ c.op = "set_name" /\ c.kind \in FirstClass /\ Exists(pre, c.kind, c.x)
    \/ c.op \in {"del_name", "set_name_none", "del_item", "pop_item"} /\ c.kind \in FirstClass
         /\ Exists(pre, c.kind, c.x)
         /\ (c.op \in {"del_item", "pop_item"} => c.key \in {"name", "eid"} /\ DataOf(pre, c.kind, c.x)[c.key] # NoVal)
         /\ (c.op = "set_name_none" => DataOf(pre, c.kind, c.x).name # NoVal)
    \/ c.op = "set_item" /\ c.key \in {"name", "eid"} /\ c.kind \in FirstClass /\ Exists(pre, c.kind, c.x)
C10_MustRefuse(pre, c) ==
    CASE c.op = "add" -> AddVetoed(pre, Rel[c.rel].ck, c.p, c.x)
      [] c.op \in {"create", "create_child"} ->
           LET kind == IF c.op = "create" THEN Rel[c.rel].ck ELSE "I" IN
           /\ c.name # NoVal /\ HasNamespace(pre, ParentKind(kind), c.p)
           /\ Collides(pre, kind, c.p, 0, "name", c.name)
      [] c.op \in {"del_name", "set_name_none", "del_item", "pop_item"} -> FALSE   \* freeing a name is never refused
      [] c.op \in {"set_name", "set_item"} ->
           LET key == IF c.op = "set_name" THEN "name" ELSE c.key
               p == ParentOf(pre, c.kind, c.x) IN
           \/ DataOf(pre, c.kind, c.x).ns = "EDIF" /\ key = "eid" /\ ~EdifLegal(c.val)
           \/ p # None /\ HasNamespace(pre, ParentKind(c.kind), p) /\ Collides(pre, c.kind, p, c.x, key, c.val)
C10_RefusalExact(pre, c, out) ==
    C10_Applies(pre, c) => ((out # "ok") <=> C10_MustRefuse(pre, c))

(* lk: the logged lookup table, one entry per (parent, child kind, key,     *)
(* value): [pk, p, ck, key, val, res] with res the ids the query returned   *)
C10_LookupEntryOK(s, e) ==
    LET sibs == SiblingsOf(s, e.ck, e.p)
        pol == NsOf(s, e.pk, e.p)
        hit(y) == LET v == DataOf(s, e.ck, y)[e.key] IN
                  v # NoVal /\ (IF e.key = "eid" /\ pol = "EDIF" THEN Fold(v) = Fold(e.val) ELSE v = e.val)
    IN NoDup(e.res) /\ SeqSet(e.res) = {y \in SeqSet(sibs) : hit(y)}
C10_LookupAgrees(s, lk) == \A j \in DOMAIN lk : C10_LookupEntryOK(s, lk[j])

---------------------------------------------------------------------------
(* C19 - a listener that merely replays the announcements holds an exact   *)
(* mirror.  m is the mirror listener's copy (membership level: containment *)
(* as sets of pairs, connections as a set, references, top, data).         *)
MirrorOf(s) ==
    [ rel  |-> [rn \in RelNames |->
                  {<<p, s[Rel[rn].list][p][j]>> :
                      <<p, j>> \in {<<pp, jj>> \in (1..CountOf(s, Rel[rn].pk)) \X (1..12) :
                                        jj \in DOMAIN s[Rel[rn].list][pp]}}],
      conn |-> {[w |-> w, r |-> s.wirePins[w][j]] :
                   <<w, j>> \in {<<ww, jj>> \in IdsW(s) \X (1..12) : jj \in DOMAIN s.wirePins[ww]}},
      ref  |-> s.instRef,
      top  |-> s.nlTop,
      data |-> [N |-> s.nlData, L |-> s.libData, D |-> s.defData, P |-> s.portData,
                C |-> s.cabData, I |-> s.instData] ]
(* the connections as the PINS report them (pin.wire of inner pins and of the outer pins stored on instances): the mirror, *)
(* which was told "wire w lost pin r", has one set of connections - it must agree with both sides of the netlist          *)
PinSideConn(s) ==
    {[w |-> s.pinWire[q], r |-> IPin(q)] : q \in {qq \in IdsQ(s) : s.pinWire[qq] # None}}
    \cup UNION {{[w |-> s.instPins[i][j].wire, r |-> OPin(i, s.instPins[i][j].ip)] :
                    j \in {jj \in DOMAIN s.instPins[i] : s.instPins[i][jj].wire # None}} : i \in IdsI(s)}
C19_MirrorExact(s, m) == MirrorOf(s) = m /\ PinSideConn(s) = m.conn
C19_BeforeEffect(ann) == \A j \in DOMAIN ann : ~ann[j].late

=============================================================================
