------------------------------ MODULE PropsQ ------------------------------
(***************************************************************************)
(* C13 - the filter arguments of the query functions mean what they say.   *)
(* A query call c = [op |-> "q", fn, root, sel, rec, key, pats, isCase,    *)
(* isRe, filt].  Observed for it:                                          *)
(*   ret      the result of the query as asked                             *)
(*   unf      the result of the same function / root / selection /         *)
(*            recursion with the default pattern and no filter             *)
(*   vals     vals[i] = value of unf[i] under the chosen key (characters)  *)
(*   retPerm  the result with the patterns in reverse order                *)
(*   retSlow  the result with the accelerated name lookup deregistered     *)
(* Elements are <<kind, id>> pairs, hierarchical ones are paths.           *)
(***************************************************************************)
EXTENDS PropsC, Query

IsHierFn(fn) == fn \in {"hinstances", "hports", "hpins", "hcables", "hwires"}
ElemId(c, e) == IF IsHierFn(c.fn) THEN e[Len(e)][2] ELSE e[2]
C13_Expected(c, unf, vals) ==
    {unf[i] : i \in {j \in ExpectedIdx(vals, c.pats, c.isCase) : Filt(c.filt, ElemId(c, unf[j]))}}
(* under the EDIF policy an exact identifier compares case-insensitively (candidates of the EDIF query scope carry fold = TRUE) *)
Folding(c) == "fold" \in DOMAIN c /\ c.fold
C13_ExpectedF(c, unf, vals) ==
    {unf[i] : i \in {j \in ExpectedIdx(vals, c.pats, IF Folding(c) THEN FALSE ELSE c.isCase) : Filt(c.filt, ElemId(c, unf[j]))}}
C13_Restriction(c, ret, unf, vals)  == c.op = "q" => SeqSet(ret) = C13_ExpectedF(c, unf, vals)
C13_NoDuplicates(c, ret, unf)       == c.op = "q" => NoDup(ret) /\ NoDup(unf)
C13_PatternOrder(c, ret, retPerm)   == c.op = "q" => SeqSet(retPerm) = SeqSet(ret)
C13_FastSlowAgree(c, ret, retSlow)  == c.op = "q" => SeqSet(retSlow) = SeqSet(ret)

QueryFilterClauses(c, r) ==
    IF c.op = "q" /\ r.out = "ok" THEN
      << <<"C13_Restriction", C13_Restriction(c, r.ret, r.unf, r.vals)>>,
         <<"C13_NoDuplicates", C13_NoDuplicates(c, r.ret, r.unf)>>,
         <<"C13_PatternOrder", C13_PatternOrder(c, r.ret, r.retPerm)>>,
         \* without the accelerated lookup an exact identifier is compared as spelt: for folding queries the two paths
         \* differ by design wherever only the case differs, so only "slow is contained in fast" is asked there
         <<"C13_FastSlowAgree", IF Folding(c) THEN SeqSet(r.retSlow) \subseteq SeqSet(r.ret) ELSE C13_FastSlowAgree(c, r.ret, r.retSlow)>> >>
    ELSE <<>>

---------------------------------------------------------------------------
(* C20 - the comparer accepts a faithful copy and rejects a copy that differs in an examined aspect.  *)
(* Observed: raises (did Comparer(a, b).compare() raise).  A faithful copy is decided structurally by *)
(* the correspondence of C07 (same names, data, order, shapes, connections), not by how it was made.  *)
C20_AcceptsEqual(s, c, raises) ==
    (c.op = "compare" /\ C07_Iso(s, s, "N", c.a, c.b)) => ~raises
C20_RejectsDifferent(s, c, raises) ==
    (c.op = "compare" /\ Differs(s, c.a, c.b)) => raises
CompareClauses(s, c, r) ==
    IF c.op = "compare" THEN
      << <<"C20_AcceptsEqual", C20_AcceptsEqual(s, c, r.raises)>>,
         <<"C20_RejectsDifferent", C20_RejectsDifferent(s, c, r.raises)>> >>
    ELSE <<>>

---------------------------------------------------------------------------
(* the query product offered for a state (sampled by the scope) *)
FlatFns == {"netlists", "libraries", "definitions", "instances", "ports", "cables"}
HierFns == {"hinstances", "hports", "hpins", "hcables", "hwires"}
NameChars == [a |-> <<"a">>, A |-> <<"A">>, ab |-> <<"a", "b">>, Ab |-> <<"A", "b">>, aB |-> <<"a", "B">>,
              b |-> <<"b">>, t |-> <<"t">>, m |-> <<"m">>, l |-> <<"l">>, n |-> <<"n">>, c |-> <<"c">>]
CharsOf(nm) == IF nm \in DOMAIN NameChars THEN NameChars[nm] ELSE <<>>
ValuesIn(s) ==
    ({CharsOf(d.name) : d \in UNION {SeqSet(s[f]) : f \in {"nlData", "libData", "defData", "portData", "cabData", "instData"}}}
    \cup {CharsOf(d.k) : d \in UNION {SeqSet(s[f]) : f \in {"defData", "portData", "cabData", "instData"}}}) \ {<<>>}
RootsOf(s) ==
    {<<"N", 1>>} \cup {<<"L", x>> : x \in IdsL(s)} \cup {<<"D", x>> : x \in IdsD(s)} \cup {<<"I", x>> : x \in IdsI(s)}
    \cup {<<"P", x>> : x \in IdsP(s) \cap {1}} \cup {<<"C", x>> : x \in IdsC(s) \cap {1}}
    \cup {<<"Q", x>> : x \in IdsQ(s) \cap {1}} \cup {<<"W", x>> : x \in IdsW(s) \cap {1}}
QueryProduct(s) ==
    LET pats == PatternsFrom(ValuesIn(s)) \cup {<<Lit("a"), Lit("/"), AnyN>>, <<AnyN, Lit("b")>>, <<Any1, AnyN>>,
                                                 \* bit indices of hierarchical pin / wire names
                                                 <<AnyN, Lit("["), Lit("2"), Lit("]")>>, <<AnyN, Lit("["), Lit("3"), Lit("]")>>,
                                                 <<AnyN, Lit("["), Lit("0"), Lit("]")>>, <<AnyN, Lit("a"), Lit("["), Any1, Lit("]")>>}
        patseqs == {<<p>> : p \in pats} \cup {<<p, q>> : <<p, q>> \in pats \X pats} IN
    [op : {"q"}, fn : FlatFns \cup HierFns, root : RootsOf(s), sel : {"INSIDE", "OUTSIDE"}, rec : BOOLEAN,
     key : {"name", "k", "eid"}, pats : patseqs, isCase : BOOLEAN, isRe : BOOLEAN, filt : {"none", "odd"}]
(* the part of the product that goes through the exact-lookup path: every (function, direct parent) *)
(* pair with every exact value, alone and combined with a wildcard, under every key - taken entirely *)
DirectProduct(s) ==
    LET vals == ValuesIn(s)
        patseqs == {<<Exact(v)>> : v \in vals} \cup {<<Exact(v), <<AnyN>>>> : v \in vals}
                   \cup {<<Exact(v), Exact(w)>> : <<v, w>> \in vals \X vals}
        pairs == {<<"libraries", <<"N", x>>>> : x \in IdsN(s)} \cup {<<"definitions", <<"L", x>>>> : x \in IdsL(s)}
                 \cup {<<fn, <<"D", x>>>> : <<fn, x>> \in {"instances", "ports", "cables"} \X IdsD(s)}
    IN {[op |-> "q", fn |-> pr[1], root |-> pr[2], sel |-> "INSIDE", rec |-> rc, key |-> key, pats |-> ps,
         isCase |-> TRUE, isRe |-> FALSE, filt |-> "none"] :
            <<pr, rc, key, ps>> \in pairs \X BOOLEAN \X {"name", "k", "eid"} \X patseqs}
(* hierarchical pins / wires by their indexed names ("a/a[2]"), from the netlist and from every instance reference *)
IndexedNameProduct(s) ==
    LET pats == {<<AnyN, Lit("["), Lit("2"), Lit("]")>>, <<AnyN, Lit("["), Lit("3"), Lit("]")>>, <<AnyN, Lit("["), Lit("0"), Lit("]")>>,
                 <<AnyN, Lit("["), Lit("1"), Lit("]")>>, <<AnyN, Lit("a"), Lit("["), Any1, Lit("]")>>, <<AnyN, Lit("["), AnyN>>}
    IN {[op |-> "q", fn |-> fn, root |-> <<"N", 1>>, sel |-> "INSIDE", rec |-> rc, key |-> "name", pats |-> <<p>>,
         isCase |-> TRUE, isRe |-> re, filt |-> "none"] :
            <<fn, rc, p, re>> \in {"hpins", "hwires", "hports", "hcables"} \X BOOLEAN \X pats \X BOOLEAN}
(* cables reached indirectly (from an instance, a pin, a wire, a cable) with an exact pattern AHEAD of an overlapping one *)
IndirectCableProduct(s) ==
    LET vals == ValuesIn(s)
        roots == {<<"I", x>> : x \in IdsI(s)} \cup {<<"Q", x>> : x \in IdsQ(s)} \cup {<<"W", x>> : x \in IdsW(s)}
                 \cup {<<"C", x>> : x \in IdsC(s)} \cup {<<"D", x>> : x \in IdsD(s)}
    IN {[op |-> "q", fn |-> "cables", root |-> r, sel |-> sel, rec |-> rc, key |-> "name", pats |-> ps,
         isCase |-> TRUE, isRe |-> FALSE, filt |-> "none"] :
            <<r, sel, rc, ps>> \in roots \X {"INSIDE", "OUTSIDE"} \X BOOLEAN
                                 \X UNION {{<<Exact(v), Prefix(v)>>, <<Exact(v), Exact(v)>>, <<Prefix(v), Exact(v)>>, <<Exact(v), <<AnyN>>>>} : v \in vals}}
(* the EDIF-policy query family: exact identifier lookups (as spelt, case-swapped, and for identifiers that an *)
(* element no longer has) from the roots that own a naming scope                                                *)
EdifDirectProduct(s) ==
    LET vals == {NameChars[nm] : nm \in DOMAIN NameChars}
        pairs == {<<"libraries", <<"N", x>>>> : x \in IdsN(s)} \cup {<<"definitions", <<"L", x>>>> : x \in IdsL(s)}
                 \cup {<<fn, <<"D", x>>>> : <<fn, x>> \in {"instances", "ports", "cables"} \X IdsD(s)}
    IN {[op |-> "q", fn |-> pr[1], root |-> pr[2], sel |-> "INSIDE", rec |-> FALSE, key |-> "eid", pats |-> <<Exact(v)>>,
         isCase |-> TRUE, isRe |-> FALSE, filt |-> "none", fold |-> TRUE] : <<pr, v>> \in pairs \X vals}
=============================================================================
