-------------------------------- MODULE Fmt --------------------------------
(***************************************************************************)
(* The canonical, name-keyed abstract DESIGN a netlist stands for - what   *)
(* the file formats are about.  Canon(s, n) forgets ids, python objects    *)
(* and metadata keys; it keeps, per library and cell: the ports in order   *)
(* with direction, width, array-ness and base index, the instances with    *)
(* the cell and library they reference and their properties, the nets with *)
(* width and base index and, per bit, the ordered list of endpoints        *)
(* (instance name or "" for a port of the cell itself, port name, bit      *)
(* position in the port), and the top design.  Two netlists describe the   *)
(* same design iff their canons are equal; the readers and writers are     *)
(* judged by comparing canons (EDIF: C03 C05, Verilog: C04 C06, EBLIF:     *)
(* C18) of states observed before and after.                               *)
(***************************************************************************)
EXTENDS Compare

PortCanon(s, p) ==
    [name |-> s.portData[p].name, dir |-> s.portAttr[p].dir, width |-> Len(s.portPins[p]),
     array |-> IsArrayObs(s, p), lower |-> s.portAttr[p].lower]
EndpointOf(s, r) ==
    LET p == s.pinPort[r.q] IN
    [inst |-> IF r.k = "o" THEN s.instData[r.i].name ELSE "",
     port |-> IF p = None THEN "<none>" ELSE s.portData[p].name,
     bit  |-> IF p = None THEN 0 ELSE IndexIn(s.portPins[p], r.q) - 1]
IsArrayCable(s, c) == ~IsScalarObs(s.cabAttr[c], s.cabWires[c])
NetCanon(s, c, ordered) ==
    [name |-> s.cabData[c].name, width |-> Len(s.cabWires[c]), array |-> IsArrayCable(s, c),
     lower |-> s.cabAttr[c].lower,
     bits |-> [k \in DOMAIN s.cabWires[c] |->
                 LET pins == SelectSeq(s.wirePins[s.cabWires[c][k]], LAMBDA r : r.k \in {"i", "o"})
                     eps == [j \in DOMAIN pins |-> EndpointOf(s, pins[j])] IN
                 IF ordered THEN eps ELSE SeqSet(eps)]]
InstCanon(s, i) ==
    [name |-> s.instData[i].name, ref |-> NameOfD(s, s.instRef[i]), reflib |-> LibNameOfD(s, s.instRef[i]),
     props |-> s.instData[i].props]
CellCanon(s, d, ordered) ==
    [name |-> s.defData[d].name,
     ports |-> [j \in DOMAIN s.defPorts[d] |-> PortCanon(s, s.defPorts[d][j])],
     insts |-> {InstCanon(s, i) : i \in SeqSet(s.defKids[d])},
     nets  |-> {NetCanon(s, c, ordered) : c \in SeqSet(s.defCables[d])}]
LibCanon(s, l, ordered) ==
    [name |-> s.libData[l].name, cells |-> {CellCanon(s, d, ordered) : d \in SeqSet(s.libDefs[l])}]
TopCanon(s, n) ==
    LET t == s.nlTop[n] IN
    IF t = None THEN [cell |-> "<none>", lib |-> "<none>"]
    ELSE [cell |-> NameOfD(s, s.instRef[t]), lib |-> LibNameOfD(s, s.instRef[t])]
(* ordered = TRUE keeps the order of endpoints on every net bit (EDIF, C03/C05); FALSE compares them as sets *)
Canon(s, n, ordered) ==
    [name |-> s.nlData[n].name, top |-> TopCanon(s, n),
     libs |-> {LibCanon(s, l, ordered) : l \in SeqSet(s.nlLibs[n])}]

(* the subtree of netlist n is well-formed and self-contained (for C05/C06/C18 "the result is a         *)
(* well-formed, self-contained netlist"): all state clauses of C01/C02 hold and every link stays inside *)
SelfContained(s, n) ==
    LET Ls == SeqSet(s.nlLibs[n])
        Ds == UNION {SeqSet(s.libDefs[l]) : l \in Ls}
        Is == UNION {SeqSet(s.defKids[d]) : d \in Ds} \cup (IF s.nlTop[n] = None THEN {} ELSE {s.nlTop[n]})
    IN /\ \A i \in Is : s.instRef[i] # None /\ s.instRef[i] \in Ds
       /\ \A d \in Ds : s.defRefs[d] \subseteq Is
=============================================================================
