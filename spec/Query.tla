------------------------------- MODULE Query -------------------------------
(***************************************************************************)
(* What the filter arguments of the query functions mean (C13).            *)
(* Values and patterns are sequences of one-character strings.  A pattern  *)
(* is a sequence of tokens: a literal character, "any one character"       *)
(* (? in shell mode, . in regex mode) or "any sequence" (* resp. .*); the  *)
(* harness renders it in the syntax of the mode (escaping literals for     *)
(* is_re).  Matches is the one definition of equality / shell wildcard /   *)
(* full-match regex / case folding.                                        *)
(***************************************************************************)
EXTENDS Naturals, Sequences, FiniteSets, TLC

Lit(ch) == [t |-> "c", c |-> ch]
Any1    == [t |-> "1"]
NonDig  == [t |-> "D"]      \* rendered \D in a regular expression (an upper-case escape), ? as a wildcard
AnyN    == [t |-> "n"]

LowerTable == [A |-> "a", B |-> "b", C |-> "c", D |-> "d", E |-> "e", T |-> "t", M |-> "m", L |-> "l", N |-> "n"]
LowerCh(ch) == IF ch \in DOMAIN LowerTable THEN LowerTable[ch] ELSE ch
UpperTable == [a |-> "A", b |-> "B", c |-> "C", d |-> "D", e |-> "E", t |-> "T", m |-> "M", l |-> "L", n |-> "N"]
SwapCh(ch) == IF ch \in DOMAIN UpperTable THEN UpperTable[ch] ELSE LowerCh(ch)
SameCh(a, b, isCase) == IF isCase THEN a = b ELSE LowerCh(a) = LowerCh(b)

RECURSIVE Matches(_, _, _)
Matches(v, p, isCase) ==
    IF p = <<>> THEN v = <<>>
    ELSE LET h == Head(p) IN
         CASE h.t = "c" -> v # <<>> /\ SameCh(Head(v), h.c, isCase) /\ Matches(Tail(v), Tail(p), isCase)
           [] h.t = "1" -> v # <<>> /\ Matches(Tail(v), Tail(p), isCase)
           [] h.t = "D" -> v # <<>> /\ Matches(Tail(v), Tail(p), isCase)     \* one non-digit character (all alphabet characters are letters)
           [] h.t = "n" -> Matches(v, Tail(p), isCase) \/ (v # <<>> /\ Matches(Tail(v), p, isCase))

(* patterns derived from a value: exact, case-swapped, first character + *, one character replaced by ? *)
Exact(v)    == [j \in DOMAIN v |-> Lit(v[j])]
Swapped(v)  == [j \in DOMAIN v |-> Lit(SwapCh(v[j]))]
Prefix(v)   == IF v = <<>> THEN <<AnyN>> ELSE <<Lit(v[1]), AnyN>>
Holes(v)    == {[j \in DOMAIN v |-> IF j = k THEN Any1 ELSE Lit(v[j])] : k \in DOMAIN v}
               \cup {[j \in DOMAIN v |-> IF j = 1 THEN NonDig ELSE Lit(v[j])]}
PatternsFrom(V) == {<<AnyN>>} \cup UNION {{Exact(v), Swapped(v), Prefix(v)} \cup Holes(v) : v \in V}

(* the callback filter used by the checks: elements with an odd id *)
Filt(name, x) == IF name = "odd" THEN x % 2 = 1 ELSE TRUE

(* expected result of a query, relative to the unfiltered answer unf (element i has value vals[i]) *)
ExpectedIdx(vals, pats, isCase) ==
    {i \in DOMAIN vals : \E j \in DOMAIN pats : Matches(vals[i], pats[j], isCase)}

(* sanity of the definition itself *)
ASSUME \A v \in {<<>>, <<"a">>, <<"a", "B">>, <<"A", "b", "a">>} :
          /\ Matches(v, Exact(v), TRUE) /\ Matches(v, Swapped(v), FALSE) /\ Matches(v, <<AnyN>>, TRUE)
          /\ (v # <<>> => ~Matches(v, Swapped(v), TRUE))
          /\ \A h \in Holes(v) : Matches(v, h, TRUE)
=============================================================================
