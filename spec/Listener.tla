------------------------------ MODULE Listener ------------------------------
(***************************************************************************)
(* The announcement design of the callback framework (C19), model side.    *)
(*                                                                         *)
(* Announce(s, c) is the sequence of announcements the editing call c      *)
(* makes in state s, written from the code (the dispatchers _call_* at the *)
(* head of each mutator, the constructors, the implicit disconnects of     *)
(* port / pin removal and of reference changes, the policy adoption of the *)
(* namespace manager).  An announcement is a record                        *)
(*   [ev, k1, a, k2, b, pin, key, val]                                     *)
(* (event name, first element as kind and id, second element, pin          *)
(* reference for connections, data key and value).                         *)
(*                                                                         *)
(* ReplayAnn(m, anns) is what a listener that merely replays announcements *)
(* does to its mirror m (the shape of Props!MirrorOf).                     *)
(*                                                                         *)
(* Checked by TLC                                                          *)
(*  - on the model (MC.tla, every explored transition):                    *)
(*      C19_Suffices   replaying Announce(s, c) on MirrorOf(s) gives       *)
(*                     MirrorOf of the post-state, for accepted and for    *)
(*                     refused calls alike;                                *)
(*  - on the implementation (Trace.tla, conformance): the set of           *)
(*    announcements a MirrorListener heard during the call equals the set  *)
(*    Announce(pre, c) (DRIFT "announcements" otherwise), and ReplayAnn of *)
(*    the HEARD announcements on MirrorOf(pre) equals MirrorOf(post)       *)
(*    (clause C19_ReplayExact: the verdict no longer rests on the Python   *)
(*    listener's own bookkeeping).                                         *)
(***************************************************************************)
EXTENDS Props

NoPinA == [k |-> "-", i |-> 0, q |-> 0]
APin(r) == [k |-> IF r.k = "p" THEN "o" ELSE r.k, i |-> IF r.k = "i" THEN 0 ELSE r.i, q |-> r.q]
Ann(ev, k1, a, k2, b, pin, key, val) ==
    [ev |-> ev, k1 |-> k1, a |-> a, k2 |-> k2, b |-> b, pin |-> pin, key |-> key, val |-> val]

CreateEv == [N |-> "create_netlist", L |-> "create_library", D |-> "create_definition",
             P |-> "create_port", C |-> "create_cable", I |-> "create_instance"]
AddEv == [NL |-> "netlist_add_library", LD |-> "library_add_definition", DP |-> "definition_add_port",
          DC |-> "definition_add_cable", DI |-> "definition_add_child", PQ |-> "port_add_pin",
          CW |-> "cable_add_wire"]
RemEv == [NL |-> "netlist_remove_library", LD |-> "library_remove_definition", DP |-> "definition_remove_port",
          DC |-> "definition_remove_cable", DI |-> "definition_remove_child", PQ |-> "port_remove_pin",
          CW |-> "cable_remove_wire"]

ACreate(kind, e)      == Ann(CreateEv[kind], kind, e, "", 0, NoPinA, "", "")
ARel(ev, rn, p, x)    == Ann(ev[rn], Rel[rn].pk, p, Rel[rn].ck, x, NoPinA, "", "")
AConn(w, r)           == Ann("wire_connect_pin", "W", w, "", 0, APin(r), "", "")
ADisc(w, r)           == Ann("wire_disconnect_pin", "W", w, "", 0, APin(r), "", "")
ARef(i, d)            == Ann("instance_reference", "I", i, IF d = None THEN "" ELSE "D", d, NoPinA, "", "")
ATop(n, k2, x)        == Ann("netlist_top_instance", "N", n, IF x = None THEN "" ELSE k2, x, NoPinA, "", "")
ASet(kind, e, key, v) == Ann("dictionary_set", kind, e, "", 0, NoPinA, key, v)
ADel(kind, e, key)    == Ann("dictionary_delete", kind, e, "", 0, NoPinA, key, "")
APop(kind, e, key)    == Ann("dictionary_pop", kind, e, "", 0, NoPinA, key, "")

---------------------------------------------------------------------------
(* what the code announces *)

(* a constructor: the policy is stamped (twice), the element announced, then its name set *)
NewAnn(s, kind, e, nm) ==
    IF kind \in {"Q", "W"} THEN <<>>
    ELSE << ASet(kind, e, "ns", s.nsDefault), ASet(kind, e, "ns", s.nsDefault), ACreate(kind, e) >>
         \o (IF nm # NoVal THEN << ASet(kind, e, "name", nm) >> ELSE <<>>)

(* policy adoption on an accepted add: .NS is written on the whole subtree of the child *)
AdoptAnn(s, kind, p, x) ==
    LET pol == NsOf(s, ParentKind(kind), p) IN
    IF ~(kind \in FirstClass) \/ DataOf(s, kind, x).ns = pol THEN <<>>
    ELSE LET E == SetToSeqAny(Subtree(s, kind, x)) IN [j \in DOMAIN E |-> ASet(E[j][1], E[j][2], "ns", pol)]

(* implicit disconnects: the outer pins (i, q) of every instance of d that sit on a wire *)
DiscOfPin(s, d, q) ==
    LET I == SetToSeq({i \in s.defRefs[d] : HasOP(s, i, q) /\ OPWire(s, i, q) # None}) IN
    FlatSeq([j \in DOMAIN I |-> << ADisc(OPWire(s, I[j], q), OPin(I[j], q)), ADisc(OPWire(s, I[j], q), OPin(I[j], q)) >>])
DetachAnn(s, rn, p, x) ==
    << ARel(RemEv, rn, p, x) >> \o
    (CASE rn = "DP" -> FlatSeq([j \in DOMAIN s.portPins[x] |-> DiscOfPin(s, p, s.portPins[x][j])])
       [] rn = "PQ" -> IF s.portDef[p] = None THEN <<>> ELSE DiscOfPin(s, s.portDef[p], x)
       [] OTHER -> <<>>)

DiscAnn(s, w, r) ==      \* disconnect of one pin argument: an instance pin is announced twice
    LET sr == StoredRef(r) IN
    IF sr.k = "i" THEN << ADisc(w, sr) >> ELSE << ADisc(w, sr), ADisc(w, sr) >>

RefAnn(s, i, d) ==       \* instance.reference = d: pins that go away are taken off their wires
    << ARef(i, d) >> \o
    (IF d = None
     THEN LET P == SelectSeq(s.instPins[i], LAMBDA e : e.wire # None) IN
          FlatSeq([j \in DOMAIN P |-> << ADisc(P[j].wire, OPin(i, P[j].ip)), ADisc(P[j].wire, OPin(i, P[j].ip)) >>])
     ELSE <<>>)

Announce(s, c) ==
    LET res == Apply(s, c)
        ok == res.out = "ok" IN
    CASE c.op = "new" -> NewAnn(s, c.kind, CountOf(s, c.kind) + 1, c.name)
      [] c.op = "create" ->
           LET r == Rel[c.rel]  e == CountOf(s, r.ck) + 1 IN
           NewAnn(s, r.ck, IF ok THEN e ELSE 0, c.name)       \* 0: the orphan of a refused create exists nowhere afterwards
           \o (IF ~ok THEN <<>>
               ELSE LET s1 == NewOf(s, r.ck, c.name) IN
                    AdoptAnn(s1, r.ck, c.p, e) \o << ARel(AddEv, c.rel, c.p, e) >>
                    \o (IF c.rel = "DP" /\ c.n > 0
                        THEN [j \in 1..c.n |-> ARel(AddEv, "PQ", e, NumQ(s) + j)]
                        ELSE IF c.rel = "DC" /\ c.n > 0
                        THEN [j \in 1..c.n |-> ARel(AddEv, "CW", e, NumW(s) + j)]
                        ELSE <<>>))
      [] c.op = "create_n" ->
           IF ~ok THEN <<>>
           ELSE [j \in 1..c.n |-> ARel(AddEv, c.rel, c.p, CountOf(s, Rel[c.rel].ck) + j)]
      [] c.op = "create_child" ->
           LET e == NumI(s) + 1 IN
           NewAnn(s, "I", IF ok THEN e ELSE 0, c.name)
           \o (IF ~ok THEN <<>>
               ELSE AdoptAnn(NewI(s, c.name), "I", c.p, e) \o << ARel(AddEv, "DI", c.p, e), ARef(e, c.ref) >>)
      [] c.op = "add" ->
           IF ~ok THEN <<>>
           ELSE AdoptAnn(s, Rel[c.rel].ck, c.p, c.x) \o << ARel(AddEv, c.rel, c.p, c.x) >>
      [] c.op = "remove" -> IF ~ok THEN <<>> ELSE DetachAnn(s, c.rel, c.p, c.x)
      [] c.op = "remove_from" ->
           IF ~ok THEN <<>>
           ELSE LET X == SetToSeq(c.xs) IN FlatSeq([j \in DOMAIN X |-> DetachAnn(s, c.rel, c.p, X[j])])
      [] c.op \in {"reorder", "reorder_pins", "set_attr", "set_lower", "set_dir", "mutate_props", "drop_prop",
                   "set_default", "reset"} -> <<>>
      [] c.op = "connect" -> IF ~ok THEN <<>> ELSE << AConn(c.w, StoredRef(c.pin)) >>
      [] c.op = "disconnect" -> IF ~ok THEN <<>> ELSE DiscAnn(s, c.w, c.pin)
      [] c.op = "disconnect_from" ->
           IF ~ok THEN <<>>
           ELSE LET R == SetToSeqAny({StoredRef(r) : r \in c.pins}) IN
                FlatSeq([j \in DOMAIN R |-> DiscAnn(s, c.w, R[j])])
      [] c.op = "set_ref" -> IF ~ok THEN <<>> ELSE RefAnn(s, c.i, c.d)
      [] c.op \in {"set_top", "set_top_m"} -> IF ~ok THEN <<>> ELSE << ATop(c.n, "I", c.i) >>
      [] c.op = "set_top_def" ->
           IF ~ok THEN <<>>
           ELSE LET e == NumI(s) + 1 IN
                << ATop(c.n, "D", c.d) >> \o NewAnn(s, "I", e, NoVal) \o << ARef(e, c.d), ATop(c.n, "I", e) >>
      [] c.op = "set_top_dm" ->
           IF ~ok THEN <<>>
           ELSE LET e == NumI(s) + 1 IN
                << ATop(c.n, "D", c.d) >> \o NewAnn(s, "I", e, NoVal) \o << ARef(e, c.d), ATop(c.n, "I", e), ASet("I", e, "name", c.name) >>
      [] c.op \in {"set_item", "set_name"} ->
           LET key == IF c.op = "set_name" THEN "name" ELSE c.key IN
           IF ~ok THEN <<>>
           ELSE IF key = "ns"
           THEN (IF DataOf(s, c.kind, c.x).ns = c.val THEN << ASet(c.kind, c.x, "ns", c.val) >>
                 ELSE LET E == SetToSeqAny(Subtree(s, c.kind, c.x)) IN
                      [j \in DOMAIN E |-> ASet(E[j][1], E[j][2], "ns", c.val)])
           ELSE << ASet(c.kind, c.x, key, c.val) >>
      [] c.op = "del_item" -> IF c.kind \in FirstClass /\ Exists(s, c.kind, c.x) THEN << ADel(c.kind, c.x, c.key) >> ELSE <<>>
      [] c.op = "pop_item" -> IF c.kind \in FirstClass /\ Exists(s, c.kind, c.x) THEN << APop(c.kind, c.x, c.key) >> ELSE <<>>
      [] c.op = "del_name" ->
           IF ok /\ DataOf(s, c.kind, c.x).name # NoVal THEN << ADel(c.kind, c.x, "name") >> ELSE <<>>
      [] c.op = "set_name_none" ->
           IF ~ok THEN <<>>
           ELSE IF DataOf(s, c.kind, c.x).name # NoVal THEN << ADel(c.kind, c.x, "name") >>
           ELSE <<>>
      [] OTHER -> <<>>

---------------------------------------------------------------------------
(* what a replaying listener does *)
Blank == [name |-> NoVal, eid |-> NoVal, ns |-> NoVal, k |-> NoVal, props |-> NoVal, vattr |-> NoVal, eb |-> NoVal]
RECURSIVE PadTo(_, _, _)
PadTo(q, n, v) == IF Len(q) >= n THEN q ELSE PadTo(Append(q, v), n, v)
(* the mirror learns of an element when it is first mentioned *)
Ensure(m, kind, e) ==
    IF ~(kind \in FirstClass) \/ e = 0 THEN m
    ELSE LET m1 == [m EXCEPT !.data[kind] = PadTo(@, e, Blank)] IN
         IF kind = "I" THEN [m1 EXCEPT !.ref = PadTo(@, e, None)]
         ELSE IF kind = "N" THEN [m1 EXCEPT !.top = PadTo(@, e, None)]
         ELSE m1
RelOfEv(ev) == CHOOSE rn \in RelNames : AddEv[rn] = ev \/ RemEv[rn] = ev
Replay1(m0, a) ==
    LET m == Ensure(Ensure(m0, a.k1, a.a), a.k2, a.b) IN
    IF a.a = 0 THEN m0       \* about an element that exists nowhere in the observed state
    ELSE
    CASE a.ev \in {CreateEv[k] : k \in DOMAIN CreateEv} -> m
      [] a.ev \in {AddEv[rn] : rn \in RelNames} -> [m EXCEPT !.rel[RelOfEv(a.ev)] = @ \cup {<<a.a, a.b>>}]
      [] a.ev \in {RemEv[rn] : rn \in RelNames} -> [m EXCEPT !.rel[RelOfEv(a.ev)] = @ \ {<<a.a, a.b>>}]
      [] a.ev = "wire_connect_pin" ->
           [m EXCEPT !.conn = @ \cup {[w |-> a.a, r |-> IF a.pin.k = "i" THEN IPin(a.pin.q) ELSE OPin(a.pin.i, a.pin.q)]}]
      [] a.ev = "wire_disconnect_pin" ->
           [m EXCEPT !.conn = @ \ {[w |-> a.a, r |-> IF a.pin.k = "i" THEN IPin(a.pin.q) ELSE OPin(a.pin.i, a.pin.q)]}]
      [] a.ev = "instance_reference" -> [m EXCEPT !.ref[a.a] = a.b]
      [] a.ev = "netlist_top_instance" -> [m EXCEPT !.top[a.a] = a.b]
      [] a.ev = "dictionary_set" ->
           IF a.key \in DOMAIN Blank THEN [m EXCEPT !.data[a.k1][a.a][a.key] = a.val] ELSE m
      [] a.ev \in {"dictionary_delete", "dictionary_pop"} ->
           IF a.key \in DOMAIN Blank THEN [m EXCEPT !.data[a.k1][a.a][a.key] = NoVal] ELSE m
      [] OTHER -> m
RECURSIVE ReplayAnn(_, _)
ReplayAnn(m, anns) == IF anns = <<>> THEN m ELSE ReplayAnn(Replay1(m, Head(anns)), Tail(anns))

(* re-pointing re-keys the connected outer pins: the wire lists then name the new pins.  A replaying        *)
(* listener that keeps connections by pin OBJECT sees no change there; the id-level mirror renames them.    *)
RekeyConn(m, s, c) ==
    IF c.op = "set_ref" /\ c.i \in IdsI(s) /\ c.d # None /\ c.d \in IdsD(s) /\ s.instRef[c.i] # None
    THEN LET oq == PinsOfDef(s, s.instRef[c.i])  nq == PinsOfDef(s, c.d)
             map(q) == IF q \in SeqSet(oq) /\ Len(oq) = Len(nq) THEN nq[MinOf({j \in DOMAIN oq : oq[j] = q})] ELSE q
         IN [m EXCEPT !.conn = {IF x.r.k = "o" /\ x.r.i = c.i THEN [x EXCEPT !.r = OPin(c.i, map(x.r.q))] ELSE x : x \in @}]
    ELSE m

(* announcements about an element that the refused call then discards (the orphan of a refused create_X) *)
(* concern nothing that exists afterwards: the mirror is compared on the elements of the post-state      *)
TrimTo(m, s) ==
    [m EXCEPT !.data = [k \in DOMAIN @ |-> SubSeq(@[k], 1, CountOf(s, k))],
              !.ref = SubSeq(@, 1, NumI(s)), !.top = SubSeq(@, 1, NumN(s))]
IROps == {"new", "create", "create_n", "create_child", "add", "remove", "remove_from", "reorder", "connect",
          "disconnect", "disconnect_from", "reorder_pins", "set_ref", "set_top", "set_top_def", "set_top_dm", "set_item", "del_item",
          "pop_item", "set_name", "del_name", "set_name_none", "set_attr", "set_lower", "set_dir", "set_default", "reset"}
C19_Suffices(s, c) ==
    LET res == Apply(s, c)
        m == ReplayAnn(MirrorOf(s), Announce(s, c)) IN
    TrimTo(IF res.out = "ok" THEN RekeyConn(m, s, c) ELSE m, res.s) = MirrorOf(res.s)

(* on observed records: heard = the announcements a listener heard, in order *)
Core(a) == Ann(a.ev, a.k1, a.a, a.k2, a.b, a.pin, a.key, a.val)
C19_ReplayExact(pre, c, out, post, heard) ==
    LET m == ReplayAnn(MirrorOf(pre), [j \in DOMAIN heard |-> Core(heard[j])]) IN
    TrimTo(IF out = "ok" THEN RekeyConn(m, pre, c) ELSE m, post) = MirrorOf(post)
AnnouncementsAsModel(pre, c, heard) == {Core(heard[j]) : j \in DOMAIN heard} = SeqSet(Announce(pre, c))
=============================================================================
