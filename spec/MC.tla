-------------------------------- MODULE MC --------------------------------
(***************************************************************************)
(* Model checking of the IR state machine inside a scope, and emission of  *)
(* the explored states (call history + every candidate call) for replay    *)
(* into the implementation.                                                *)
(*                                                                         *)
(*  - `ir` is the abstract state, `hist` the calls that led to it (hidden  *)
(*    by VIEW so that each abstract state is explored once, with the       *)
(*    BFS-shortest history).                                               *)
(*  - Next takes EVERY candidate call of the scope, accepted or refused;   *)
(*    the action-level property clauses are asserted on every explored     *)
(*    transition, the state-level clauses are INVARIANTs.                  *)
(*  - EmitState (an INVARIANT that is always TRUE) prints one JSON line    *)
(*    per distinct state: its history and its candidate calls.             *)
(***************************************************************************)
EXTENDS PropsF, Json, Randomization

CONSTANTS ScopeName, MaxDepth, Emit
VARIABLES ir, hist

U == NoVal   \* unnamed

(* skeleton of the connection scope: top definition d1 (2-wire cable c1,    *)
(* one-pin port p1), leaf definition d2 (one-pin port p2), two instances    *)
ConnInit == << Cnew("N", U), Ccreate("NL", 1, U, 0), Ccreate("LD", 1, U, 0), Ccreate("LD", 1, U, 0),
               Ccreate("DC", 1, U, 2), Ccreate("DP", 1, U, 1), Ccreate("DP", 2, U, 1),
               Cchild(1, U, 2), Cchild(1, U, 2) >>
(* skeleton of the mirror scope: parent d1 with cable c1 (1 wire), shape-   *)
(* compatible d2, d3 (two one-pin ports each, d2's first port named "a"),   *)
(* i1, i2 instances of d2 in d1, i1's first pin connected                   *)
MirrorInit == << Cnew("N", U), Ccreate("NL", 1, U, 0), Ccreate("LD", 1, U, 0), Ccreate("LD", 1, U, 0),
                 Ccreate("LD", 1, U, 0), Ccreate("DC", 1, U, 1),
                 Ccreate("DP", 2, "a", 1), Ccreate("DP", 2, U, 1),
                 Ccreate("DP", 3, U, 1), Ccreate("DP", 3, U, 1),
                 Cchild(1, U, 2), Cchild(1, U, 2),
                 Cconnect(1, OPin(1, 1)),
                 Cchild(3, U, 1) >>          \* an instance of the definition WITHOUT ports (it has no outer pins)
(* containment scope: two netlists, libraries and definitions moving around *)
ContainInit == << Cnew("N", U), Cnew("N", U), Ccreate("NL", 1, U, 0), Ccreate("LD", 1, U, 0) >>
(* definition body: ports, cables, children of one definition + a foreign one *)
BodyInit == << Cnew("N", U), Ccreate("NL", 1, U, 0), Ccreate("LD", 1, U, 0), Ccreate("LD", 1, U, 0),
               Ccreate("DP", 1, U, 0), Ccreate("DC", 1, U, 0), Cchild(1, U, 2), Ccreate("DP", 2, U, 0) >>

NamingInit(pol) == << Csetdefault(pol), Cnew("N", U), Ccreate("NL", 1, "a", 0), Ccreate("LD", 1, "a", 0),
                      Ccreate("LD", 1, "b", 0), Ccreate("DP", 1, "a", 0), Ccreate("DC", 1, "a", 0),
                      Cchild(1, "a", 2) >>
NamingOps == {"new:P", "new:D", "new:I", "add:DP", "add:LD", "add:DI", "remove:DP", "remove:LD", "remove:DI",
              "create:DP", "create:LD", "create_child", "set_name:P", "set_name:D", "set_name:I",
              "del_name:P", "del_name:D", "set_eid:P", "set_eid:D", "del_item:P", "del_item:D"}
NamingScope(pol, extra) ==
      [init |-> NamingInit(pol), ops |-> NamingOps \cup extra,
       max |-> [N |-> 1, L |-> 1, D |-> 3, P |-> 2, C |-> 1, I |-> 2, Q |-> 0, W |-> 0],
       names |-> {"a", "A"}, vals |-> {"a", "A", "1x"}, pos |-> {NoPos}, createN |-> {0},
       lookupVals |-> {"a", "A", "b"}]

(* skeleton of the hierarchy families: leaf d1 (ports p1, p2 of one pin), mid d2 (port p3, cable c1 with  *)
(* two wires), top definition d3 (port p4, cable c2 with two wires), top instance i1 of d3                *)
HierInit == << Cnew("N", "n"), Ccreate("NL", 1, "lib", 0), Ccreate("LD", 1, "leaf", 0), Ccreate("LD", 1, "mid", 0),
               Ccreate("LD", 1, "top", 0),
               Ccreate("DP", 1, "i", 1), Ccreate("DP", 1, "o", 1),
               Ccreate("DP", 2, "p", 1), Ccreate("DC", 2, "n", 2),
               Ccreate("DP", 3, "t", 1), Ccreate("DC", 3, "m", 2),
               Csettopdef(1, 3) >>
HierScope(q, extra) ==
      [init |-> HierInit, ops |-> {"b:child", "b:connect"} \cup extra,
       max |-> [N |-> 1, L |-> 1, D |-> 3, P |-> 4, C |-> 2, I |-> 5, Q |-> 4, W |-> 4],
       names |-> {"a", "b", U}, vals |-> {}, pos |-> {NoPos}, createN |-> {0},
       parents |-> {2, 3}, maxKids |-> 2, queries |-> q, walk |-> FALSE]

(* skeleton of the transform scopes: leaf d1 (ports i, o) in library "prim"; in library "work" a    *)
(* feed-through capable mid d2 (ports a, b; cable n with two wires) and the top definition d3 (bus    *)
(* port t of two pins; cable m with two wires); top instance i1 of d3                                 *)
XfInit == << Cnew("N", "n"), Ccreate("NL", 1, "prim", 0), Ccreate("NL", 1, "ip", 0), Ccreate("NL", 1, "work", 0),
             Ccreate("LD", 1, "leaf", 0), Ccreate("LD", 2, "mid", 0), Ccreate("LD", 3, "top", 0),
             Ccreate("DP", 1, "i", 1), Ccreate("DP", 1, "o", 1),
             Ccreate("DP", 2, "a", 1), Ccreate("DP", 2, "b", 1), Ccreate("DC", 2, "n", 2),
             Ccreate("DP", 3, "t", 2), Ccreate("DC", 3, "m", 2),
             Csettopdef(1, 3) >>
XfScope ==
      [init |-> XfInit, ops |-> {"b:child", "b:connect"},
       max |-> [N |-> 1, L |-> 3, D |-> 3, P |-> 5, C |-> 2, I |-> 5, Q |-> 6, W |-> 4],
       names |-> {"a", "b"}, vals |-> {}, pos |-> {NoPos}, createN |-> {0},
       parents |-> {2, 3}, maxKids |-> 2, queries |-> {"xf"}, walk |-> FALSE, lookupVals |-> {}]
(* port-boundary scope: the hierarchy is fixed (top: mid instance m, leaf instance x; mid: leaf      *)
(* instance l), mid has a two-bit bus port a and a port b and ONE inner wire, top has two wires;      *)
(* only connections vary, so every way of tying inner nets to port bits and outer nets is reachable   *)
XfPortInit == << Cnew("N", "n"), Ccreate("NL", 1, "work", 0),
                 Ccreate("LD", 1, "leaf", 0), Ccreate("LD", 1, "mid", 0), Ccreate("LD", 1, "top", 0),
                 Ccreate("DP", 1, "i", 1), Ccreate("DP", 1, "o", 1),
                 Ccreate("DP", 2, "a", 2), Ccreate("DP", 2, "b", 1), Ccreate("DC", 2, "n", 1),
                 Ccreate("DP", 3, "t", 1), Ccreate("DC", 3, "m", 2),
                 \* instance names that begin / end with the path separator
                 Cchild(2, "/dbg", 1), Cchild(3, "io/", 2), Cchild(3, "x", 1),
                 Csettopdef(1, 3) >>
XfPortScope ==
      [init |-> XfPortInit, ops |-> {"b:connect"},
       max |-> [N |-> 1, L |-> 1, D |-> 3, P |-> 5, C |-> 2, I |-> 4, Q |-> 6, W |-> 3],
       names |-> {"a"}, vals |-> {}, pos |-> {NoPos}, createN |-> {0},
       parents |-> {2, 3}, maxKids |-> 2, queries |-> {"xf"}, walk |-> FALSE]

(* a netlist and its clone side by side: edits and transformations of either must not show in the other *)
Cclone(kind, x) == [op |-> "clone", kind |-> kind, x |-> x]
CloneEditInit == XfInit \o << Cchild(2, "a", 1), Cchild(3, "a", 2), Cchild(3, "b", 2),
                              Cconnect(1, IPin(3)), Cconnect(1, OPin(2, 1)), Cconnect(3, IPin(5)),
                              Cconnect(3, OPin(3, 3)), Cconnect(4, OPin(4, 3)),
                              Csetitem("I", 2, "props", "v0"), Csetitem("I", 3, "props", "v0"),
                              Csetitem("D", 2, "props", "v0"), Csetitem("P", 3, "props", "v0"),
                              Cclone("N", 1) >>
CloneEditScope ==
      [init |-> CloneEditInit,
       ops |-> {"remove:DI", "remove:DP", "remove:PQ", "remove:CW", "create:PQ", "create:DP", "connect",
                "disconnect", "set_name:I", "set_name:D", "del_name:I", "unref", "create_child",
                "props:I", "props:D", "props:P"},
       max |-> [N |-> 2, L |-> 6, D |-> 6, P |-> 11, C |-> 4, I |-> 9, Q |-> 13, W |-> 8],
       names |-> {"z"}, vals |-> {}, pos |-> {NoPos}, createN |-> {0},
       queries |-> {"xf2"}, walk |-> FALSE]

(* format scopes: a fully named design space (named top instance, three libraries, bus port, bus nets)   *)
FmtInit == << Cnew("N", "n"), Ccreate("NL", 1, "prim", 0), Ccreate("NL", 1, "ip", 0), Ccreate("NL", 1, "work", 0),
              Ccreate("LD", 1, "leaf", 0), Ccreate("LD", 2, "leaf", 0), Ccreate("LD", 2, "mid", 0), Ccreate("LD", 3, "top", 0),
              Ccreate("DP", 1, "i", 1), Ccreate("DP", 1, "o", 1), Ccreate("DP", 2, "i", 1),
              Ccreate("DP", 3, "a", 2), Ccreate("DP", 3, "b", 1), Ccreate("DC", 3, "n", 2), Ccreate("DC", 3, "s", 1),
              Ccreate("DP", 4, "t", 1), Ccreate("DC", 4, "m", 3),
              [op |-> "set_dir", x |-> 1, ival |-> 2], [op |-> "set_dir", x |-> 2, ival |-> 3],
              [op |-> "set_dir", x |-> 4, ival |-> 2], [op |-> "set_dir", x |-> 5, ival |-> 1],
              Csettopdef(1, 4), [op |-> "set_name", kind |-> "I", x |-> 1, val |-> "top"] >>
(* bus nets whose own names end in a bracket group ("q[1]" with bits q[1][0], q[1][1]) next to a sibling bus *)
(* that differs only inside the brackets                                                                    *)
FmtInitBr == << Cnew("N", "n"), Ccreate("NL", 1, "prim", 0), Ccreate("NL", 1, "ip", 0), Ccreate("NL", 1, "work", 0),
              Ccreate("LD", 1, "leaf", 0), Ccreate("LD", 2, "leaf", 0), Ccreate("LD", 2, "mid", 0), Ccreate("LD", 3, "top", 0),
              Ccreate("DP", 1, "i", 1), Ccreate("DP", 1, "o", 1), Ccreate("DP", 2, "i", 1),
              Ccreate("DP", 3, "a", 2), Ccreate("DP", 3, "b", 1), Ccreate("DC", 3, "q[1]", 2), Ccreate("DC", 3, "q[0]", 2),
              Ccreate("DP", 4, "t", 1), Ccreate("DC", 4, "m[2][0]", 3),
              [op |-> "set_dir", x |-> 1, ival |-> 2], [op |-> "set_dir", x |-> 2, ival |-> 3],
              [op |-> "set_dir", x |-> 4, ival |-> 2], [op |-> "set_dir", x |-> 5, ival |-> 1],
              Csettopdef(1, 4), [op |-> "set_name", kind |-> "I", x |-> 1, val |-> "top"] >>
(* the same cells in ONE library, so that the declaration order inside a library matters *)
FmtInit1 == << Cnew("N", "n"), Ccreate("NL", 1, "work", 0),
               Ccreate("LD", 1, "leaf", 0), Ccreate("LD", 1, "leafb", 0), Ccreate("LD", 1, "mid", 0), Ccreate("LD", 1, "top", 0),
               Ccreate("DP", 1, "i", 1), Ccreate("DP", 1, "o", 1), Ccreate("DP", 2, "i", 1),
               Ccreate("DP", 3, "a", 2), Ccreate("DP", 3, "b", 1), Ccreate("DC", 3, "n", 2), Ccreate("DC", 3, "s", 1),
               Ccreate("DP", 4, "t", 1), Ccreate("DC", 4, "m", 3),
               [op |-> "set_dir", x |-> 1, ival |-> 2], [op |-> "set_dir", x |-> 2, ival |-> 3],
               Csettopdef(1, 4), [op |-> "set_name", kind |-> "I", x |-> 1, val |-> "top"] >>
(* as FmtInit1 but the cells are CREATED in the order mid, leaf, top (object identity order matters to     *)
(* code that iterates Python sets of definitions), hierarchy pre-built                                    *)
FmtInit3 == << Cnew("N", "n"), Ccreate("NL", 1, "work", 0),
               Ccreate("LD", 1, "mid", 0), Ccreate("LD", 1, "leaf", 0), Ccreate("LD", 1, "leafb", 0), Ccreate("LD", 1, "top", 0),
               Ccreate("DP", 2, "i", 1), Ccreate("DP", 2, "o", 1), Ccreate("DP", 3, "i", 1),
               Ccreate("DP", 1, "a", 2), Ccreate("DP", 1, "b", 1), Ccreate("DC", 1, "n", 2), Ccreate("DC", 1, "s", 1),
               Ccreate("DP", 4, "t", 1), Ccreate("DC", 4, "m", 3),
               Csettopdef(1, 4), [op |-> "set_name", kind |-> "I", x |-> 1, val |-> "top"],
               Cchild(1, "u", 2), Cchild(4, "u", 1), Cchild(4, "v", 2), Cchild(4, "w", 3) >>
(* C17: adversarial names for two siblings of every naming scope, then export and re-import *)
NamePool == {"a", "A", "ab", "aB", "a-b", "a_b", "a b", "1a", "_a", "a[0]", "a/b", "a\\b", "$a", "&a", "a&b",
             "a_sdn_1_", "A_sdn_1_", "a_sdn_2_", "@254:z", "@255:z", "@256:z", "@257:z", "@256:Z", "@300:yz", "@300:xz",
             "@256:-", "1", "-", "b\\", "\\"}
NameInit == FmtInit \o << Cchild(4, "u", 3), Cchild(4, "v", 1) >>
               \o [j \in 1..12 |-> Ccreate("DP", 1, "k" \o ToString(j), 1)]      \* twelve more sibling ports on leaf
(* re-export of a netlist that already carries identifiers: export, then a NEW sibling whose name would get  *)
(* the identifier an existing sibling holds (a differently spelt name that is made legal the same way, a     *)
(* case variant, or the very name the existing sibling had when it was exported), in front or at the end,    *)
(* then export again                                                                                         *)
ClashPairs == {<<"n/1", "n.1">>, <<"a b", "a_b">>, <<"Foo", "foo">>, <<"ctrl", "ctrl">>}
ReexportCands(s) ==
    LET rt == [op |-> "edif_rt", n |-> 1]
        first(kind, b, old) == << [op |-> "set_name", kind |-> kind, x |-> b, val |-> old], rt >>
        newSib(kind, id, parent, nm, pos) ==
            CASE kind = "C" -> << Cnew("C", nm), [op |-> "create", rel |-> "CW", p |-> id, name |-> "", n |-> 0],
                                  [op |-> "add", rel |-> "DC", p |-> parent, x |-> id, pos |-> pos] >>
              [] kind = "P" -> << Cnew("P", nm), [op |-> "create", rel |-> "PQ", p |-> id, name |-> "", n |-> 0],
                                  [op |-> "add", rel |-> "DP", p |-> parent, x |-> id, pos |-> pos] >>
              [] kind = "I" -> << Cnew("I", nm), [op |-> "set_ref", i |-> id, d |-> 1],
                                  [op |-> "add", rel |-> "DI", p |-> parent, x |-> id, pos |-> pos] >>
    IN {LET s1 == ApplySeqX(s, first(g[1], g[2], pr[1]))
            id == CountOf(s1, g[1]) + 1 IN
        [op |-> "seq", calls |->
            first(g[1], g[2], pr[1])
            \o (IF pr[1] = pr[2] THEN << [op |-> "set_name", kind |-> g[1], x |-> g[2], val |-> pr[1] \o "_v1"] >> ELSE <<>>)
            \o newSib(g[1], id, ParentOf(s, g[1], g[2]), pr[2], pos) \o << rt >>] :
        <<g, pr, pos>> \in {<<"C", 2>>, <<"P", 5>>, <<"I", 3>>} \X ClashPairs \X {0, NoPos}}
NameCands(s) ==
    LET groups == {<<"L", 1, 2>>, <<"D", 2, 3>>, <<"P", 4, 5>>, <<"C", 1, 2>>, <<"I", 2, 3>>}
        many(prefix, len) ==      \* twelve siblings whose long names collide after truncation
            [op |-> "seq", calls |-> [j \in 1..12 |-> [op |-> "set_name", kind |-> "P", x |-> 6 + j,
                                                      val |-> prefix \o ToString(len) \o ":" \o ToString(9 + j)]]
                                      \o << [op |-> "edif_rt", n |-> 1] >>] IN
    {many("@", 300), many("#", 300), many("#", 257), many("@", 256)} \cup ReexportCands(s) \cup
    {[op |-> "seq", calls |-> << [op |-> "set_name", kind |-> g[1], x |-> g[2], val |-> nm[1]],
                                 [op |-> "set_name", kind |-> g[1], x |-> g[3], val |-> nm[2]],
                                 [op |-> "edif_rt", n |-> 1] >>] :
        <<g, nm>> \in groups \X {pp \in NamePool \X NamePool : pp[1] # pp[2]}}
(* Verilog scopes: the design follows spydrnet's Verilog conventions (a same-named cable on every port) *)
VlogInit == << Cnew("N", "n"), Ccreate("NL", 1, "work", 0),
               Ccreate("LD", 1, "leaf", 0), Ccreate("LD", 1, "mid", 0), Ccreate("LD", 1, "top", 0),
               Ccreate("DP", 1, "i", 1), Ccreate("DP", 1, "o", 1), Ccreate("DC", 1, "i", 1), Ccreate("DC", 1, "o", 1),
               Ccreate("DP", 2, "a", 2), Ccreate("DP", 2, "b", 1), Ccreate("DC", 2, "a", 2), Ccreate("DC", 2, "b", 1),
               Ccreate("DC", 2, "n", 2), Ccreate("DC", 2, "\\<const0>", 1),
               Ccreate("DP", 3, "t", 1), Ccreate("DP", 3, "u", 2), Ccreate("DC", 3, "t", 1), Ccreate("DC", 3, "u", 2),
               Ccreate("DC", 3, "m", 3), Ccreate("DC", 3, "\\<const1>", 1),
               [op |-> "set_dir", x |-> 1, ival |-> 2], [op |-> "set_dir", x |-> 2, ival |-> 3],
               [op |-> "set_dir", x |-> 3, ival |-> 2], [op |-> "set_dir", x |-> 4, ival |-> 1],
               [op |-> "set_dir", x |-> 5, ival |-> 2], [op |-> "set_dir", x |-> 6, ival |-> 3],
               Cconnect(1, IPin(1)), Cconnect(2, IPin(2)),
               Cconnect(3, IPin(3)), Cconnect(4, IPin(4)), Cconnect(5, IPin(5)),
               Cconnect(9, IPin(6)), Cconnect(10, IPin(7)), Cconnect(11, IPin(8)),
               Csettopdef(1, 3), [op |-> "set_name", kind |-> "I", x |-> 1, val |-> "top"],
               Cchild(2, "l", 1), Cchild(3, "m", 2) >>
(* assign statements, as spydrnet represents them: instances of SDN_VERILOG_ASSIGNMENT_<width> (ports i, o) *)
VlogAssignInit == VlogInit \o <<
               Ccreate("NL", 1, "SDN_VERILOG_ASSIGNMENT", 0),
               Ccreate("LD", 2, "SDN_VERILOG_ASSIGNMENT_1", 0), Ccreate("LD", 2, "SDN_VERILOG_ASSIGNMENT_2", 0),
               Ccreate("DP", 4, "i", 1), Ccreate("DP", 4, "o", 1), Ccreate("DP", 5, "i", 2), Ccreate("DP", 5, "o", 2),
               [op |-> "set_dir", x |-> 7, ival |-> 2], [op |-> "set_dir", x |-> 8, ival |-> 3],
               [op |-> "set_dir", x |-> 9, ival |-> 2], [op |-> "set_dir", x |-> 10, ival |-> 3],
               Cchild(2, "SDN_VERILOG_ASSIGNMENT_1_0", 4), Cchild(3, "SDN_VERILOG_ASSIGNMENT_2_1", 5),
               \* assign n[0] = a[0];   in mid
               Cconnect(3, OPin(4, 9)), Cconnect(6, OPin(4, 10)),
               \* assign m[1:0] = u;    in top
               Cconnect(10, OPin(5, 11)), Cconnect(11, OPin(5, 12)), Cconnect(12, OPin(5, 13)), Cconnect(13, OPin(5, 14)),
               \* the net n of mid is based at 2: wire [3:2] n; assign n[2] = a[0];
               [op |-> "set_lower", kind |-> "C", x |-> 5, ival |-> 2],
               \* the same literal constant in two modules: 1'b0 on pin i of l (in mid) and on pin b of m (in top)
               Ccreate("DC", 3, "\\<const0>", 1), Cconnect(8, OPin(2, 1)), Cconnect(16, OPin(3, 5)) >>
(* header-aliased ports: port a of mid is left for the build steps, which tie its bits to bits of the nets n, k (and b): *)
(* .a(n), .a({n[0], n[1]}), .a({k, n[1]}), .a({k, k}) ... with the nets carrying the direction declaration             *)
VlogAliasInit == << Cnew("N", "n"), Ccreate("NL", 1, "work", 0),
               Ccreate("LD", 1, "leaf", 0), Ccreate("LD", 1, "mid", 0), Ccreate("LD", 1, "top", 0),
               Ccreate("DP", 1, "i", 1), Ccreate("DP", 1, "o", 1), Ccreate("DC", 1, "i", 1), Ccreate("DC", 1, "o", 1),
               Ccreate("DP", 2, "b", 1), Ccreate("DP", 2, "a", 2), Ccreate("DC", 2, "b", 1), Ccreate("DC", 2, "n", 2),
               Ccreate("DC", 2, "k", 1), Ccreate("DC", 2, "j[0]", 1),
               Ccreate("DP", 3, "t", 2), Ccreate("DP", 3, "u", 1), Ccreate("DC", 3, "t", 2), Ccreate("DC", 3, "u", 1),
               [op |-> "set_dir", x |-> 1, ival |-> 2], [op |-> "set_dir", x |-> 2, ival |-> 3],
               [op |-> "set_dir", x |-> 3, ival |-> 3], [op |-> "set_dir", x |-> 4, ival |-> 2],
               [op |-> "set_dir", x |-> 5, ival |-> 2], [op |-> "set_dir", x |-> 6, ival |-> 3],
               Cconnect(1, IPin(1)), Cconnect(2, IPin(2)), Cconnect(3, IPin(3)),
               Cconnect(8, IPin(6)), Cconnect(9, IPin(7)), Cconnect(10, IPin(8)),
               Csettopdef(1, 3), [op |-> "set_name", kind |-> "I", x |-> 1, val |-> "top"],
               Cchild(2, "l", 1), Cchild(3, "m", 2),
               Cconnect(8, OPin(3, 4)), Cconnect(9, OPin(3, 5)), Cconnect(10, OPin(3, 3)) >>
VlogOpts == [order : {"asis", "reversed"}, ansi : BOOLEAN, positional : BOOLEAN, concat : BOOLEAN,
             escaped : BOOLEAN, comments : BOOLEAN, celldefine : BOOLEAN, grouped : BOOLEAN, escmod : BOOLEAN,
             undeclared : BOOLEAN, concatparts : BOOLEAN]
(* declaration styles: a leaf with two vector ports of one direction and range, instanced with every bit tied *)
VlogDeclInit == << Cnew("N", "n"), Ccreate("NL", 1, "work", 0),
               Ccreate("LD", 1, "pair", 0), Ccreate("LD", 1, "top", 0),
               Ccreate("DP", 1, "p", 2), Ccreate("DP", 1, "q", 2), Ccreate("DP", 1, "r", 1),
               Ccreate("DC", 1, "p", 2), Ccreate("DC", 1, "q", 2), Ccreate("DC", 1, "r", 1),
               Ccreate("DP", 2, "t", 2), Ccreate("DP", 2, "u", 2), Ccreate("DP", 2, "v", 1),
               Ccreate("DC", 2, "t", 2), Ccreate("DC", 2, "u", 2), Ccreate("DC", 2, "v", 1),
               [op |-> "set_dir", x |-> 1, ival |-> 2], [op |-> "set_dir", x |-> 2, ival |-> 2],
               [op |-> "set_dir", x |-> 3, ival |-> 3], [op |-> "set_dir", x |-> 4, ival |-> 2],
               [op |-> "set_dir", x |-> 5, ival |-> 2], [op |-> "set_dir", x |-> 6, ival |-> 3],
               Cconnect(1, IPin(1)), Cconnect(2, IPin(2)), Cconnect(3, IPin(3)), Cconnect(4, IPin(4)), Cconnect(5, IPin(5)),
               Cconnect(6, IPin(6)), Cconnect(7, IPin(7)), Cconnect(8, IPin(8)), Cconnect(9, IPin(9)), Cconnect(10, IPin(10)),
               Csettopdef(1, 2), [op |-> "set_name", kind |-> "I", x |-> 1, val |-> "top"],
               Cchild(2, "g", 1), Csetitem("D", 2, "k", "u"), Csetitem("D", 1, "k", "v"),     \* module attributes
               Cconnect(6, OPin(2, 1)), Cconnect(7, OPin(2, 2)), Cconnect(8, OPin(2, 3)), Cconnect(9, OPin(2, 4)),
               Cconnect(10, OPin(2, 5)) >>
VlogPlain == [order |-> "asis", ansi |-> FALSE, positional |-> FALSE, concat |-> FALSE, escaped |-> FALSE, comments |-> FALSE,
              celldefine |-> FALSE, grouped |-> FALSE, escmod |-> FALSE, undeclared |-> FALSE, concatparts |-> FALSE]
VlogCands(s, which) ==
    (IF "vlog_read" \in which
     THEN {[op |-> "vlog_read", n |-> 1, opts |-> o] : o \in (IF "vlog_all" \in which THEN RandomSubset(400, VlogOpts) ELSE RandomSubset(12, VlogOpts))}
     ELSE {})
    \cup (IF "vlog_rt" \in which
          THEN {[op |-> "seq", calls |-> <<[op |-> "vlog_read", n |-> 1, opts |-> o],
                                          [op |-> "vlog_rt", n |-> 2, copts |-> [defparam |-> dp]]>>] :
                   <<o, dp>> \in (RandomSubset(4, VlogOpts) \cup {VlogPlain, [VlogPlain EXCEPT !.positional = TRUE]}) \X BOOLEAN}
               \* "optionally transformed": the netlist the reader produced is uniquified and flattened, then written
               \cup {[op |-> "seq", calls |-> <<[op |-> "vlog_read", n |-> 1, opts |-> o], [op |-> "uniquify", n |-> 2],
                                               [op |-> "flatten", n |-> 2], [op |-> "vlog_rt", n |-> 2, copts |-> [defparam |-> FALSE]]>>] :
                   \* (leaf modules as `celldefine primitives: a plain module that only wires its ports is a pass-through
                   \* cell to flatten, which dissolves it and leaves an emptied, unused definition behind)
                   o \in RandomSubset(2, {oo \in VlogOpts : oo.escaped /\ oo.celldefine /\ ~oo.undeclared})}
          ELSE {})
VlogScope(q) ==
      [init |-> VlogInit, ops |-> {"b:child", "b:connect", "set_k:I", "set_k:C", "props:I"},
       max |-> [N |-> 1, L |-> 1, D |-> 3, P |-> 6, C |-> 10, I |-> 6, Q |-> 8, W |-> 14],
       names |-> {"x", "y"}, vals |-> {}, pos |-> {NoPos}, createN |-> {0},
       parents |-> {2, 3}, maxKids |-> 3, queries |-> q, walk |-> FALSE]
(* EBLIF scopes: a flat design following spydrnet's EBLIF conventions (primitives in hdi_primitives) *)
EblifInit == << Cnew("N", "top"), Ccreate("NL", 1, "hdi_primitives", 0), Ccreate("NL", 1, "work", 0),
                Ccreate("LD", 1, "LEAF", 0), Ccreate("LD", 1, "AND2", 0), Ccreate("LD", 2, "top", 0),
                Ccreate("LD", 1, "generic-latch", 0),
                Ccreate("DP", 1, "I", 1), Ccreate("DP", 1, "O", 1), Ccreate("DC", 1, "I", 1), Ccreate("DC", 1, "O", 1),
                Ccreate("DP", 2, "A", 2), Ccreate("DP", 2, "Y", 1), Ccreate("DC", 2, "A", 2), Ccreate("DC", 2, "Y", 1),
                Ccreate("DP", 3, "clk", 1), Ccreate("DP", 3, "d", 2), Ccreate("DP", 3, "q", 1),
                Ccreate("DC", 3, "clk", 1), Ccreate("DC", 3, "d", 2), Ccreate("DC", 3, "q", 1),
                \* internal nets of the top model named like ports of the declared primitives (I of LEAF, A[k] of AND2)
                Ccreate("DC", 3, "I", 1), Ccreate("DC", 3, "A", 2),
                [op |-> "set_dir", x |-> 1, ival |-> 2], [op |-> "set_dir", x |-> 2, ival |-> 3],
                [op |-> "set_dir", x |-> 3, ival |-> 2], [op |-> "set_dir", x |-> 4, ival |-> 3],
                [op |-> "set_dir", x |-> 5, ival |-> 2], [op |-> "set_dir", x |-> 6, ival |-> 2],
                [op |-> "set_dir", x |-> 7, ival |-> 3],
                Cconnect(1, IPin(1)), Cconnect(2, IPin(2)), Cconnect(3, IPin(3)), Cconnect(4, IPin(4)), Cconnect(5, IPin(5)),
                Cconnect(6, IPin(6)), Cconnect(7, IPin(7)), Cconnect(8, IPin(8)), Cconnect(9, IPin(9)),
                Csettopdef(1, 3), [op |-> "set_name", kind |-> "I", x |-> 1, val |-> "top"] >>
(* .names: the logic gates as the reader represents them (logic-gate_<inputs> in the primitive library, ports in_0.., out), *)
(* one two-input gate q and one constant driver k0, whose pins the build steps tie to any nets (k0 may drive the net q:   *)
(* its provisional name then is that of the earlier instance)                                                             *)
EblifNamesInit == EblifInit \o <<
                Ccreate("LD", 1, "logic-gate_2", 0), Ccreate("LD", 1, "logic-gate_0", 0),
                Ccreate("DP", 5, "in_0", 1), Ccreate("DP", 5, "in_1", 1), Ccreate("DP", 5, "out", 1), Ccreate("DP", 6, "out", 1),
                [op |-> "set_dir", x |-> 8, ival |-> 2], [op |-> "set_dir", x |-> 9, ival |-> 2],
                [op |-> "set_dir", x |-> 10, ival |-> 3], [op |-> "set_dir", x |-> 11, ival |-> 3],
                Cchild(3, "q", 5), Cchild(3, "k0", 6), Csetitem("I", 2, "k", "n"), Csetitem("I", 3, "k", "n"),
                Csetitem("I", 3, "props", "v0") >>
EblifLatchInit == EblifInit \o <<
                \* the latch primitive as the reader represents it (ports 8..12, pins 10..14), the nets "re" and "0"
                \* (cables 10, 11; wires 13, 14) and one latch instance "lq" with type, control and init-val tied
                Ccreate("DP", 4, "type", 1), Ccreate("DP", 4, "control", 1), Ccreate("DP", 4, "init-val", 1),
                Ccreate("DP", 4, "input", 1), Ccreate("DP", 4, "output", 1),
                [op |-> "set_dir", x |-> 8, ival |-> 2], [op |-> "set_dir", x |-> 9, ival |-> 2],
                [op |-> "set_dir", x |-> 10, ival |-> 2], [op |-> "set_dir", x |-> 11, ival |-> 2],
                [op |-> "set_dir", x |-> 12, ival |-> 3],
                Ccreate("DC", 3, "re", 1), Ccreate("DC", 3, "0", 1),
                Cchild(3, "lq", 4),
                Cconnect(13, OPin(2, 10)), Cconnect(6, OPin(2, 11)), Cconnect(14, OPin(2, 12)),
                [op |-> "set_item", kind |-> "I", x |-> 2, key |-> "k", val |-> "l"], Cchild(3, "u", 1) >>
EblifOpts == [comments : BOOLEAN, continuation : BOOLEAN, order : {"asis", "reversed"}, declare : {"all", "none"},
              unconn : {"omit", "unconn"}, conn : {"none", "before", "after", "after2"}]
EblifCands(s, which) ==
    (IF "eblif_read" \in which THEN {[op |-> "eblif_read", n |-> 1, opts |-> o] : o \in RandomSubset(12, EblifOpts)} ELSE {})
    \cup (IF "eblif_rt" \in which
          THEN {[op |-> "seq", calls |-> <<[op |-> "eblif_read", n |-> 1, opts |-> o], [op |-> "eblif_rt", n |-> 2]>>] :
                   o \in RandomSubset(4, {oo \in EblifOpts : oo.declare = "all"})}
          ELSE {})
EblifScope(q) ==
      [init |-> EblifInit, ops |-> {"b:child", "b:connect", "set_k:I", "props:I"},
       max |-> [N |-> 1, L |-> 2, D |-> 4, P |-> 12, C |-> 11, I |-> 5, Q |-> 14, W |-> 14],
       names |-> {"u", "v", "w"}, vals |-> {}, pos |-> {NoPos}, createN |-> {0},
       parents |-> {3}, maxKids |-> 4, queries |-> q, walk |-> FALSE]
(* C16: compose twice in each format with every option combination *)
ComposeOpts == [write_blackbox : BOOLEAN, write_eblif_cname : BOOLEAN, defparam : BOOLEAN, definition_list : BOOLEAN]
ComposeCands(s, which) ==
    (IF "c16_edif" \in which THEN {[op |-> "compose2", n |-> 1, fmt |-> "edif", opts |-> [none |-> TRUE]]} ELSE {})
    \cup (IF "c16_vlog" \in which
          THEN {[op |-> "seq", calls |-> <<[op |-> "vlog_read", n |-> 1, opts |-> [order |-> "asis", ansi |-> FALSE,
                                            positional |-> FALSE, concat |-> FALSE, escaped |-> FALSE, comments |-> FALSE,
                                            celldefine |-> cd]],
                                           [op |-> "compose2", n |-> 2, fmt |-> "verilog", opts |-> o]>>] :
                   <<o, cd>> \in {oo \in ComposeOpts : oo.write_eblif_cname} \X BOOLEAN}
               \* a netlist read from Verilog written in the other two formats
               \cup {[op |-> "seq", calls |-> <<[op |-> "vlog_read", n |-> 1, opts |-> [order |-> "asis", ansi |-> FALSE,
                                            positional |-> FALSE, concat |-> FALSE, escaped |-> FALSE, comments |-> FALSE,
                                            celldefine |-> FALSE]],
                                           [op |-> "compose2", n |-> 2, fmt |-> f, opts |-> [none |-> TRUE]]>>] :
                        f \in {"eblif", "edif"}}
          ELSE {})
    \cup (IF "c16_eblif" \in which
          THEN {[op |-> "seq", calls |-> <<[op |-> "eblif_read", n |-> 1, opts |-> [comments |-> TRUE, continuation |-> FALSE,
                                            order |-> "asis", declare |-> "all", unconn |-> "omit", conn |-> "none"]],
                                           [op |-> "compose2", n |-> 2, fmt |-> "eblif", opts |-> o]>>] :
                   o \in {oo \in ComposeOpts : ~oo.defparam /\ ~oo.definition_list}}
          ELSE {})
    \* the API-built netlist itself (it may have no name) written as EBLIF
    \cup (IF "c16_eblif_direct" \in which
          THEN {[op |-> "compose2", n |-> 1, fmt |-> "eblif", opts |-> o] : o \in {oo \in ComposeOpts : ~oo.defparam /\ ~oo.definition_list}}
          ELSE {})
(* C15: every single corruption of the rendering of a design, per format *)
ParseCands(s, which) ==
    UNION {IF ("c15_" \o f) \in which
           THEN {[op |-> "parse_text", n |-> 1, fmt |-> f, kind |-> "none", idx |-> 0]}
                \cup {[op |-> "parse_text", n |-> 1, fmt |-> f, kind |-> kd, idx |-> i] :
                         <<kd, i>> \in {"trunc", "del", "dup", "repl", "illegal"} \X (0..399)}
                \cup (IF f = "edif" THEN {[op |-> "parse_text", n |-> 1, fmt |-> f, kind |-> kd, idx |-> i] :
                                              <<kd, i>> \in {"dangle", "dangle_name", "crosslib", "sibling"} \X (0..39)} ELSE {})
                \* the same corruptions handed to the reader while the process default is the EDIF policy
                \cup {[op |-> "parse_text", n |-> 1, fmt |-> f, kind |-> kd, idx |-> 3 * i, pol |-> "EDIF"] :
                         <<kd, i>> \in {"trunc", "del", "repl"} \X (0..133)}
                \cup {[op |-> "parse_text", n |-> 1, fmt |-> f, kind |-> "none", idx |-> 0, pol |-> "EDIF"]}
           ELSE {} : f \in {"edif", "verilog", "eblif"}}
EdifOpts == [rename : BOOLEAN, case : {"same", "upper"}, bitorder : {"asc", "desc", "mixed"},
             comments : BOOLEAN, skip_empty : BOOLEAN, swapids : BOOLEAN]
FmtCands(s, which) ==
    (IF "edif_read" \in which
     THEN {[op |-> "edif_read", n |-> 1, opts |-> o] :
              o \in {oo \in EdifOpts : ~oo.swapids} \cup RandomSubset(12, {oo \in EdifOpts : oo.swapids})}
     ELSE {})
    \cup (IF "edif_rt" \in which THEN {[op |-> "edif_rt", n |-> 1]} ELSE {})
FmtScope(q) ==
      [init |-> FmtInit, ops |-> {"b:child", "b:connect", "reorder:NL", "reorder:LD", "set_attr:C", "props:I"},
       max |-> [N |-> 1, L |-> 3, D |-> 4, P |-> 6, C |-> 3, I |-> 5, Q |-> 7, W |-> 6],
       names |-> {"u", "v"}, vals |-> {}, pos |-> {NoPos, 0}, createN |-> {0},
       parents |-> {3, 4}, maxKids |-> 2, queries |-> q, walk |-> FALSE]

(* the compare scope: one named design built twice (netlist 1 and netlist 2 are faithful copies of each   *)
(* other by construction), then every single structural mutation of one of them                          *)
Csetdir(x, v) == [op |-> "set_dir", x |-> x, ival |-> v]
CmpDesign == << Cnew("N", "n"), Ccreate("NL", 1, "prim", 0), Ccreate("NL", 1, "work", 0),
                Ccreate("LD", 1, "leaf", 0), Ccreate("LD", 2, "mid", 0), Ccreate("LD", 2, "top", 0),
                Ccreate("DP", 1, "i", 1), Ccreate("DP", 1, "o", 1),
                Ccreate("DP", 2, "a", 2), Ccreate("DP", 2, "b", 1), Ccreate("DC", 2, "n", 2),
                Ccreate("DP", 3, "t", 1), Ccreate("DC", 3, "m", 2),
                Csetdir(1, 2), Csetdir(2, 3), Csetdir(3, 2), Csetdir(4, 3), Csetdir(5, 1),
                Cchild(2, "l", 1), Cchild(3, "m1", 2), Cchild(3, "x", 1), Cchild(3, "y", 1),
                Csetitem("I", 2, "props", "v0"),
                Cconnect(1, IPin(3)), Cconnect(1, OPin(1, 1)), Cconnect(2, OPin(1, 2)), Cconnect(2, IPin(5)),
                Cconnect(3, IPin(6)), Cconnect(3, OPin(2, 3)), Cconnect(3, OPin(3, 2)),
                Cconnect(4, OPin(2, 5)), Cconnect(4, OPin(3, 1)),
                \* a second cell with the port shape of leaf (the spare, unconnected instance y can be re-pointed to it)
                Ccreate("LD", 1, "leafb", 0), Ccreate("DP", 4, "i", 1), Ccreate("DP", 4, "o", 1), Csetdir(6, 2), Csetdir(7, 3),
                Csettopdef(1, 3) >>
ShiftRef(r, off) == IF r.k = "i" THEN IPin(r.q + off.Q) ELSE [r EXCEPT !.i = @ + off.I, !.q = @ + off.Q]
ShiftCall(c, off) ==
    CASE c.op = "new" -> c
      [] c.op = "create" -> [c EXCEPT !.p = @ + off[Rel[c.rel].pk]]
      [] c.op = "create_child" -> [c EXCEPT !.p = @ + off.D, !.ref = @ + off.D]
      [] c.op = "connect" -> [c EXCEPT !.w = @ + off.W, !.pin = ShiftRef(@, off)]
      [] c.op = "set_item" -> [c EXCEPT !.x = @ + off[c.kind]]
      [] c.op = "set_dir" -> [c EXCEPT !.x = @ + off.P]
      [] c.op = "set_top_def" -> [c EXCEPT !.n = @ + off.N, !.d = @ + off.D]
CmpOff == LET s1 == ApplySeqX(Empty, CmpDesign) IN [k \in Kinds |-> CountOf(s1, k)]
CmpInit == CmpDesign \o [j \in DOMAIN CmpDesign |-> ShiftCall(CmpDesign[j], CmpOff)]
(* the same design with two assign statements (two instances of SDN_VERILOG_ASSIGNMENT_1, named as the Verilog reader does *)
(* them; s2's input is free, so a connection can be moved from one to the other) and with cells leaf / Leaf that differ  *)
(* in case only                                                                                                          *)
CmpDesignA == SubSeq(CmpDesign, 1, Len(CmpDesign) - 1) \o <<
                [op |-> "set_item", kind |-> "D", x |-> 4, key |-> "name", val |-> "Leaf"],
                Ccreate("LD", 1, "SDN_VERILOG_ASSIGNMENT_1", 0), Ccreate("DP", 5, "i", 1), Ccreate("DP", 5, "o", 1),
                Csetdir(8, 2), Csetdir(9, 3),
                Cchild(3, "SDN_VERILOG_ASSIGNMENT_1_0", 5), Cchild(3, "SDN_VERILOG_ASSIGNMENT_1_1", 5),
                Cconnect(3, OPin(5, 9)), Cconnect(4, OPin(5, 10)), Cconnect(4, OPin(6, 9)), Cconnect(3, OPin(6, 10)),
                Csettopdef(1, 3) >>
CmpOffA == LET s1 == ApplySeqX(Empty, CmpDesignA) IN [k \in Kinds |-> CountOf(s1, k)]
CmpInitA == CmpDesignA \o [j \in DOMAIN CmpDesignA |-> ShiftCall(CmpDesignA[j], CmpOffA)]
Cmp(a, b) == [op |-> "compare", a |-> a, b |-> b]
Seq2(e, a, b) == [op |-> "seq", calls |-> <<e, Cmp(a, b)>>]
CompareCands(s) ==
    LET side == SideElems(s, 2)
        edits ==
          {[op |-> "remove", rel |-> rn, p |-> s[Rel[rn].back][x], x |-> x] :
              <<rn, x>> \in UNION {{<<r, y>> : y \in side[Rel[r].ck]} : r \in {"DI", "DP", "DC", "LD", "NL", "PQ", "CW"}}}
          \cup {Ccreate(rn, p, "z", 0) : <<rn, p>> \in UNION {{<<r, y>> : y \in side[Rel[r].pk]} : r \in {"DP", "DC", "LD", "NL", "PQ", "CW"}}}
          \cup {Cchild(p, "z", d) : <<p, d>> \in side.D \X side.D}
          \cup {Csetdir(x, v) : <<x, v>> \in side.P \X (0..3)}
          \cup {[op |-> "set_attr", kind |-> "P", x |-> x, key |-> "scalar", val |-> FALSE] : x \in side.P}
          \cup {Csetref(i, d) : <<i, d>> \in side.I \X side.D}
          \cup {[op |-> "mutate_props", kind |-> "I", x |-> i, val |-> "v1"] : i \in side.I}
          \cup {[op |-> "drop_prop", kind |-> "I", x |-> i] : i \in side.I}
          \cup {[op |-> "set_name", kind |-> kind, x |-> x, val |-> "z"] :
                    <<kind, x>> \in UNION {{<<k, y>> : y \in side[k]} : k \in {"L", "D", "P", "C", "I"}}}
          \cup {[op |-> "disconnect", w |-> w, pin |-> r] : <<w, r>> \in {<<ww, rr>> \in side.W \X AllRefs(s) : rr.k # "p" /\ WireOfRef(s, rr) = ww}}
        \* the moved connection takes the PLACE of the old one in the wire's list (and, as a second variant, the end)
        moves == {<<[op |-> "disconnect", w |-> w, pin |-> r],
                    [op |-> "connect", w |-> w, pin |-> r2, pos |-> IF atEnd THEN NoPos ELSE IndexIn(s.wirePins[w], r) - 1]>> : atEnd \in BOOLEAN,
                     <<w, r, r2>> \in {<<ww, rr, r3>> \in side.W \X AllRefs(s) \X AllRefs(s) :
                         /\ rr.k # "p" /\ r3.k # "p" /\ WireOfRef(s, rr) = ww /\ WireOfRef(s, r3) = None
                         /\ (IF r3.k = "i" THEN r3.q \in side.Q ELSE r3.i \in side.I)}}
        \* the last pin of a wire moved to the end of ANOTHER wire of the same cable
        hops == {<<[op |-> "disconnect", w |-> w, pin |-> r], Cconnect(w2, r)>> :
                     <<w, w2, r>> \in {<<ww, w3, rr>> \in side.W \X side.W \X AllRefs(s) :
                         /\ ww # w3 /\ s.wireCable[ww] = s.wireCable[w3] /\ rr.k # "p" /\ WireOfRef(s, rr) = ww
                         /\ s.wirePins[ww] # <<>> /\ s.wirePins[ww][Len(s.wirePins[ww])] = rr}}
        \* two instances of one cell exchange the connections of the same pin (each takes the other's place in the wire's list)
        swaps == {<<[op |-> "disconnect", w |-> p[1], pin |-> p[3]], [op |-> "disconnect", w |-> p[2], pin |-> p[4]],
                    [op |-> "connect", w |-> p[1], pin |-> p[4], pos |-> IndexIn(s.wirePins[p[1]], p[3]) - 1],
                    [op |-> "connect", w |-> p[2], pin |-> p[3], pos |-> IndexIn(s.wirePins[p[2]], p[4]) - 1]>> :
                     p \in {<<w1, w2, r1, r2>> \in side.W \X side.W \X AllRefs(s) \X AllRefs(s) :
                         /\ w1 # w2 /\ r1.k = "o" /\ r2.k = "o" /\ r1.i < r2.i /\ r1.q = r2.q
                         /\ s.instRef[r1.i] = s.instRef[r2.i]
                         /\ WireOfRef(s, r1) = w1 /\ WireOfRef(s, r2) = w2}}
    IN {Cmp(1, 2), Cmp(2, 1),
        [op |-> "seq", calls |-> <<Cclone("N", 1), Cmp(1, 3)>>], [op |-> "seq", calls |-> <<Cclone("N", 1), Cmp(3, 1)>>]}
       \cup {[op |-> "seq", calls |-> <<m[1], m[2], m[3], m[4], Cmp(1, 2)>>] : m \in swaps}
       \cup {Seq2(e, 1, 2) : e \in edits} \cup {Seq2(e, 2, 1) : e \in edits}
       \cup {[op |-> "seq", calls |-> <<m[1], m[2], Cmp(1, 2)>>] : m \in moves \cup hops}

(* a fixed small design with colliding names for the query product (the inputs of C13 are the queries) *)
QInit == << Cnew("N", "n"), Ccreate("NL", 1, "l", 0), Ccreate("LD", 1, "a", 0), Ccreate("LD", 1, "ab", 0),
            Ccreate("LD", 1, "t", 0),
            Ccreate("DP", 1, "a", 1), Ccreate("DP", 1, "A", 1),
            Ccreate("DP", 2, "a", 2), Ccreate("DC", 2, "a", 2), Ccreate("DC", 2, "ab", 1),
            Ccreate("DP", 3, "b", 1), Ccreate("DC", 3, "a", 1), Ccreate("DC", 3, "Ab", 1),
            Cchild(2, NoVal, 1), Cchild(2, "a", 1), Cchild(2, "A", 1),
            Cchild(3, "a", 2), Cchild(3, "ab", 2), Cchild(3, "b", 1),
            Csetitem("I", 2, "k", "a"), Csetitem("I", 5, "k", "ab"), Csetitem("I", 6, "k", "a"),
            Csetitem("D", 2, "k", "a"), Csetitem("P", 2, "k", "ab"), Csetitem("C", 2, "k", "a"),
            Csetitem("C", 4, "k", "ab"),
            Csetitem("D", 2, "eid", "ab"), Csetitem("P", 3, "eid", "a"),
            Cconnect(1, IPin(3)), Cconnect(1, OPin(1, 1)), Cconnect(4, OPin(4, 3)), Cconnect(4, IPin(5)),
            [op |-> "set_lower", kind |-> "P", x |-> 3, ival |-> 2],       \* the two-bit port a of cell ab is a[3:2]
            Csettopdef(1, 3) >>
(* the same kind of design under the EDIF policy, with identifiers in mixed case, two of them CHANGED after *)
(* the element joined its parent (the old spelling must not answer any more)                               *)
QInitE == << [op |-> "set_default", val |-> "EDIF"],
             Cnew("N", "n"), Ccreate("NL", 1, "l", 0), Ccreate("LD", 1, "a", 0), Ccreate("LD", 1, "ab", 0),
             Ccreate("LD", 1, "t", 0),
             Ccreate("DP", 1, "a", 1), Ccreate("DP", 1, "A", 1),
             Ccreate("DP", 2, "a", 2), Ccreate("DC", 2, "a", 2), Ccreate("DC", 2, "ab", 1),
             Ccreate("DP", 3, "b", 1), Ccreate("DC", 3, "a", 1), Ccreate("DC", 3, "Ab", 1),
             Cchild(2, NoVal, 1), Cchild(2, "a", 1), Cchild(2, "A", 1),
             Cchild(3, "a", 2), Cchild(3, "ab", 2), Cchild(3, "b", 1),
             Csetitem("L", 1, "eid", "Ab"), Csetitem("D", 1, "eid", "a"), Csetitem("D", 2, "eid", "Ab"), Csetitem("D", 3, "eid", "t"),
             Csetitem("P", 1, "eid", "aB"), Csetitem("P", 2, "eid", "b"), Csetitem("C", 1, "eid", "A"), Csetitem("C", 2, "eid", "aB"),
             Csetitem("I", 2, "eid", "Ab"), Csetitem("I", 3, "eid", "a"), Csetitem("I", 5, "eid", "aB"),
             \* identifiers changed afterwards
             Csetitem("D", 2, "eid", "b"), Csetitem("P", 1, "eid", "t"), Csetitem("C", 2, "eid", "m"), Csetitem("I", 2, "eid", "l"),
             Csetitem("L", 1, "eid", "n"),
             Csettopdef(1, 3) >>
QScope == [init |-> QInit, ops |-> {}, max |-> MaxAll(0), names |-> {}, vals |-> {}, pos |-> {NoPos},
           createN |-> {0}, queries |-> {"C13"}, walk |-> FALSE, sample |-> 3000]

ScopeTable ==
  [ c15_edif |-> [FmtScope({"c15_edif"}) EXCEPT !.init = FmtInit \o << Cchild(3, "u", 1), Cchild(4, "v", 3), Cchild(4, "w", 1),
                                                 Cconnect(1, OPin(2, 1)), Cconnect(6, OPin(3, 4)), Cconnect(6, IPin(7)) >>, !.ops = {}],
    c15_vlog |-> [VlogScope({"c15_verilog"}) EXCEPT !.init = VlogInit \o << Cconnect(5, OPin(2, 1)), Cconnect(12, OPin(3, 3)),
                                                 Cconnect(13, OPin(3, 4)) >>, !.ops = {}],
    c15_eblif |-> [EblifScope({"c15_eblif"}) EXCEPT !.init = EblifInit \o << Cchild(3, "u", 1), Cchild(3, "v", 2),
                                                 Cconnect(6, OPin(2, 1)), Cconnect(10, OPin(2, 2)), Cconnect(10, OPin(3, 3)),
                                                 Cconnect(9, OPin(3, 5)) >>, !.ops = {}],
    \* mid's one-pin port b is an ARRAY port (like Verilog [0:0])
    c16_edif |-> [FmtScope({"c16_edif"}) EXCEPT
                    !.init = @ \o << [op |-> "set_attr", kind |-> "P", x |-> 5, key |-> "scalar", val |-> FALSE] >>],
    \* ... connected inside the cell and on an instance of it
    c16_edif_arr |-> [FmtScope({"c16_edif"}) EXCEPT
                    !.init = @ \o << [op |-> "set_attr", kind |-> "P", x |-> 5, key |-> "scalar", val |-> FALSE],
                                     Cchild(3, "u", 1), Cchild(4, "v", 3), Cconnect(3, IPin(6)), Cconnect(3, OPin(2, 1)),
                                     Cconnect(4, OPin(3, 6)), Cconnect(4, IPin(7)) >>, !.ops = {}],
    c16_edif3 |-> [FmtScope({"c16_edif"}) EXCEPT !.init = FmtInit3, !.parents = {1, 4}],
    c16_vlog |-> VlogScope({"c16_vlog"}),
    c16_eblif |-> EblifScope({"c16_eblif"}),
    c16_eblif_noname |-> [EblifScope({"c16_eblif_direct"}) EXCEPT !.init = @ \o << [op |-> "del_name", kind |-> "N", x |-> 1] >>],
    \* an API-built netlist whose primitives do NOT live in a library called hdi_primitives: whether the EBLIF writer
    \* accepts it or not, it is left as it was
    c16_eblif_nolib |-> [EblifScope({"c16_eblif_direct"}) EXCEPT
                           !.init = @ \o << [op |-> "set_name", kind |-> "L", x |-> 1, val |-> "cells"] >>],
    eblif_read |-> EblifScope({"eblif_read"}),
    eblif_rt |-> EblifScope({"eblif_rt"}),
    eblif_names |-> [EblifScope({"eblif_read", "eblif_rt"}) EXCEPT !.init = EblifNamesInit, !.ops = {"b:connect", "props:I"},
                       !.max = [N |-> 1, L |-> 2, D |-> 6, P |-> 12, C |-> 11, I |-> 5, Q |-> 14, W |-> 14]],
    \* model ports listed under .inputs AND .outputs (inout): a bus and a scalar one
    eblif_inout |-> [EblifScope({"eblif_read", "eblif_rt"}) EXCEPT
                       !.init = EblifInit \o << [op |-> "set_dir", x |-> 6, ival |-> 1], [op |-> "set_dir", x |-> 7, ival |-> 1] >>],
    eblif_latch |-> [EblifScope({"eblif_read"}) EXCEPT !.init = EblifLatchInit, !.ops = {"b:connect"}],
    eblif_latch_rt |-> [EblifScope({"eblif_rt"}) EXCEPT !.init = EblifLatchInit, !.ops = {"b:connect"}],
    vlog_read |-> VlogScope({"vlog_read"}),
    vlog_rt |-> VlogScope({"vlog_rt"}),
    vlog_assign |-> [VlogScope({"vlog_read", "vlog_rt"}) EXCEPT !.init = VlogAssignInit, !.ops = {"b:connect", "set_k:C"},
                       !.max = [N |-> 1, L |-> 2, D |-> 5, P |-> 10, C |-> 11, I |-> 5, Q |-> 14, W |-> 16]],
    \* the top module has a net called n like mid (the modules' nets are separate name spaces)
    vlog_shared |-> [VlogScope({"vlog_read", "vlog_rt"}) EXCEPT
                       !.init = VlogInit \o << [op |-> "set_name", kind |-> "C", x |-> 9, val |-> "n"],
                                               Cconnect(6, OPin(2, 1)), Cconnect(5, OPin(2, 2)),
                                               Cconnect(12, OPin(3, 3)), Cconnect(13, OPin(3, 4)), Cconnect(10, OPin(3, 5)) >>,
                       !.ops = {}, !.parents = {}],
    vlog_alias |-> [VlogScope({"vlog_read", "vlog_rt"}) EXCEPT !.init = VlogAliasInit, !.ops = {"b:connect"}, !.parents = {2},
                      !.max = [N |-> 1, L |-> 1, D |-> 3, P |-> 6, C |-> 8, I |-> 3, Q |-> 8, W |-> 10]],
    vlog_decl |-> [VlogScope({"vlog_read", "vlog_rt", "vlog_all"}) EXCEPT !.init = VlogDeclInit, !.ops = {}, !.parents = {}],
    \* ... plus a cell nothing instantiates: it must survive a write-then-read step (outside C06's single-root domain)
    vlog_unused |-> [VlogScope({"vlog_rt"}) EXCEPT
                       !.init = VlogDeclInit \o << Ccreate("LD", 1, "spare", 0), Ccreate("DP", 3, "s", 1), Ccreate("DC", 3, "s", 1),
                                                   [op |-> "set_dir", x |-> 7, ival |-> 2], Cconnect(11, IPin(11)) >>,
                       !.ops = {}, !.parents = {}],
    edif_names |-> [init |-> NameInit, ops |-> {}, max |-> MaxAll(0), names |-> {}, vals |-> {}, pos |-> {NoPos},
                    createN |-> {0}, queries |-> {"C17"}, walk |-> FALSE],
    edif_reexport |-> [init |-> NameInit, ops |-> {}, max |-> MaxAll(0), names |-> {}, vals |-> {}, pos |-> {NoPos},
                       createN |-> {0}, queries |-> {"C17re"}, walk |-> FALSE],
    edif_read |-> FmtScope({"edif_read"}),
    edif_rt |-> FmtScope({"edif_rt"}),
    edif_read1 |-> [FmtScope({"edif_read"}) EXCEPT !.init = FmtInit1],
    \* ... and mid's one-pin port b is an ARRAY port: (array b 1)
    edif_read_br |-> [FmtScope({"edif_read"}) EXCEPT !.init = FmtInitBr \o << [op |-> "set_attr", kind |-> "P", x |-> 5, key |-> "scalar", val |-> FALSE] >>],
    \* ... and (write-then-read only) the nets q[1] and m[2][0] are ASCENDING (is_downto = FALSE, as an API user or the
    \* Verilog reader for wire [0:1] makes them): bit numbering in the file does not depend on it
    edif_rt_br |-> [FmtScope({"edif_rt"}) EXCEPT !.init = FmtInitBr \o << [op |-> "set_attr", kind |-> "P", x |-> 5, key |-> "scalar", val |-> FALSE],
                                                                        [op |-> "set_attr", kind |-> "C", x |-> 1, key |-> "downto", val |-> FALSE],
                                                                        [op |-> "set_attr", kind |-> "C", x |-> 3, key |-> "downto", val |-> FALSE] >>],
    edif_rt1 |-> [FmtScope({"edif_rt"}) EXCEPT !.init = FmtInit1],
    \* names that were met ALONE in earlier naming scopes of the export (a cell foo, a port FOO) and are siblings later
    \* (instances foo and FOO in one cell; nets foo and FOO)
    edif_rt_memo |-> [FmtScope({"edif_rt"}) EXCEPT !.ops = {}, !.parents = {},
                        !.init = FmtInit1 \o << [op |-> "set_name", kind |-> "D", x |-> 1, val |-> "foo"],
                                                [op |-> "set_name", kind |-> "P", x |-> 3, val |-> "FOO"],
                                                Cchild(4, "foo", 1), Cchild(4, "FOO", 1), Cchild(4, "u", 3),
                                                Ccreate("DC", 4, "foo", 1), Ccreate("DC", 4, "FOO", 1) >>],
    edif_rt2 |-> [FmtScope({"edif_rt"}) EXCEPT !.init = FmtInit1 \o << Cchild(3, "u", 1), Cchild(4, "u", 3), Cchild(4, "v", 1) >>],
    edif_rt3 |-> [FmtScope({"edif_rt"}) EXCEPT !.init = FmtInit3, !.parents = {1, 4}],
    \* sibling instances and sibling cells whose names differ only in case, the lower-case one declared first
    edif_read_case |-> [FmtScope({"edif_read"}) EXCEPT !.ops = {}, !.parents = {},
                          !.init = FmtInit1 \o << Cchild(3, "core", 1), Cchild(3, "Core", 2), Cchild(4, "u", 3),
                                                  [op |-> "set_name", kind |-> "D", x |-> 2, val |-> "Leaf"] >>],
    edif_rt_case |-> [FmtScope({"edif_rt"}) EXCEPT !.ops = {}, !.parents = {},
                          !.init = FmtInit1 \o << Cchild(3, "core", 1), Cchild(3, "Core", 2), Cchild(4, "u", 3),
                                                  [op |-> "set_name", kind |-> "D", x |-> 2, val |-> "Leaf"] >>],
    edif_read2 |-> [FmtScope({"edif_read"}) EXCEPT !.init = FmtInit1 \o << Cchild(3, "u", 1), Cchild(4, "u", 3), Cchild(4, "v", 1) >>],
    compare |-> [init |-> CmpInit, ops |-> {}, max |-> MaxAll(0), names |-> {}, vals |-> {}, pos |-> {NoPos},
                 createN |-> {0}, queries |-> {"C20"}, walk |-> FALSE],
    compare_assign |-> [init |-> CmpInitA, ops |-> {}, max |-> MaxAll(0), names |-> {}, vals |-> {}, pos |-> {NoPos},
                 createN |-> {0}, queries |-> {"C20"}, walk |-> FALSE],
    query |-> QScope,
    \* the netlist's naming policy was dropped (del netlist[".NS"]): there is no index, exact lookups must scan
    query_nons |-> [QScope EXCEPT !.init = QInit \o << [op |-> "del_item", kind |-> "N", x |-> 1, key |-> "ns"] >>,
                                  !.queries = {"C13d"}],
    query_edif |-> [QScope EXCEPT !.init = QInitE, !.queries = {"C13e"}],
    \* ... after REFUSED adds: a stand-alone instance / cell whose identifier is free but whose name is taken
    query_edif_ref |-> [QScope EXCEPT !.queries = {"C13e"},
                        !.init = QInitE \o << Cnew("I", "a"), Csetitem("I", 8, "eid", "m"), Cadd("DI", 3, 8),
                                              Cnew("D", "ab"), Csetitem("D", 4, "eid", "l"), Cadd("LD", 1, 4) >>],
    clone_edit |-> CloneEditScope,
    clone |-> [XfScope EXCEPT !.queries = {"clone"}, !.names = {"a", U}, !.lookupVals = {"a", "leaf", "mid"},
                              !.ops = @ \cup {"remove:LD", "props:I"},
                              \* bundle attributes off their defaults: a one-bit array port, an ascending scalar port, a based net
                              !.init = @ \o << [op |-> "set_attr", kind |-> "P", x |-> 1, key |-> "scalar", val |-> FALSE],
                                               [op |-> "set_attr", kind |-> "P", x |-> 2, key |-> "downto", val |-> FALSE],
                                               [op |-> "set_attr", kind |-> "C", x |-> 2, key |-> "downto", val |-> FALSE],
                                               [op |-> "set_lower", kind |-> "C", x |-> 1, ival |-> 2] >>],
    \* self-contained designs only (no cell is taken out of its library): used where the clone of a netlist is judged by
    \* the reference-set invariants (Netlist.clone does not register copies with definitions OUTSIDE the netlist)
    clone_closed |-> [XfScope EXCEPT !.queries = {"clone"}, !.names = {"a", U}, !.lookupVals = {}],
    \* the top instance is an ordinary child of a definition (not a stand-alone instance)
    clone_top |-> [XfScope EXCEPT !.queries = {"clone"}, !.names = {"a"}, !.lookupVals = {},
                                  !.init = SubSeq(XfInit, 1, Len(XfInit) - 1) \o << Cchild(3, "k", 2), Csettop(1, 1) >>],
    xf |-> XfScope,
    \* the shared cell got a port in front AFTER it was instanced: the instance's pins are not in port order
    xf_late |-> [XfScope EXCEPT !.init = XfInit \o << Cchild(3, "k", 2), Cnew("P", "z"),
                                                      [op |-> "create", rel |-> "PQ", p |-> 6, name |-> "", n |-> 0],
                                                      [op |-> "add", rel |-> "DP", p |-> 2, x |-> 6, pos |-> 0] >>,
                                !.max = [N |-> 1, L |-> 3, D |-> 3, P |-> 6, C |-> 2, I |-> 5, Q |-> 7, W |-> 4]],
    xf_port |-> XfPortScope,
    \* the EDIF policy, cables and instances carry identifiers: flatten, add a new hierarchical cell, flatten again
    xf_edif |-> [XfPortScope EXCEPT
               !.init = << Csetdefault("EDIF"), Cnew("N", "n"), Ccreate("NL", 1, "work", 0),
                           Ccreate("LD", 1, "leaf", 0), Ccreate("LD", 1, "mid", 0), Ccreate("LD", 1, "top", 0),
                           Ccreate("DP", 1, "i", 1), Ccreate("DP", 2, "a", 1), Ccreate("DC", 2, "n", 1),
                           Ccreate("DP", 3, "t", 1), Ccreate("DC", 3, "m", 2), Ccreate("DC", 2, "k", 1),
                           Cchild(2, "l", 1), Cchild(3, "mm", 2), Cchild(3, "x", 1),
                           Csetitem("C", 1, "eid", "n"), Csetitem("C", 2, "eid", "m"), Csetitem("C", 3, "eid", "k"),
                           Csetitem("I", 1, "eid", "l"),
                           Csetitem("I", 2, "eid", "mm"), Csetitem("I", 3, "eid", "x"),
                           Cconnect(1, IPin(2)), Cconnect(1, OPin(1, 1)), Cconnect(2, OPin(2, 2)), Cconnect(2, IPin(3)),
                           Csettopdef(1, 3) >>,
               !.ops = {}, !.parents = {}, !.queries = {"xfe"},
               !.max = [N |-> 1, L |-> 1, D |-> 3, P |-> 3, C |-> 3, I |-> 4, Q |-> 3, W |-> 4]],
    \* four levels: a (holding a leaf) is instanced directly under top AND inside m, which is instanced twice
    xf4 |-> [XfPortScope EXCEPT
               !.init = << Cnew("N", "n"), Ccreate("NL", 1, "work", 0),
                           Ccreate("LD", 1, "leaf", 0), Ccreate("LD", 1, "a", 0), Ccreate("LD", 1, "m", 0), Ccreate("LD", 1, "top", 0),
                           Ccreate("DP", 1, "i", 1), Ccreate("DP", 2, "p", 1), Ccreate("DC", 2, "n", 1),
                           Ccreate("DP", 3, "q", 1), Ccreate("DC", 3, "k", 1), Ccreate("DP", 4, "t", 1), Ccreate("DC", 4, "w", 2),
                           Cchild(2, "l", 1), Cchild(3, "a0", 2), Cchild(4, "a1", 2), Cchild(4, "m1", 3), Cchild(4, "m2", 3),
                           Csettopdef(1, 4) >>,
               !.parents = {2, 3, 4}, !.max = [N |-> 1, L |-> 1, D |-> 4, P |-> 4, C |-> 3, I |-> 6, Q |-> 4, W |-> 4]],
    \* a hierarchical cell WITHOUT ports (a self-contained block holding a leaf), next to the usual ones
    xf_noport |-> [XfPortScope EXCEPT
               !.init = << Cnew("N", "n"), Ccreate("NL", 1, "work", 0),
                           Ccreate("LD", 1, "leaf", 0), Ccreate("LD", 1, "box", 0), Ccreate("LD", 1, "mid", 0), Ccreate("LD", 1, "top", 0),
                           Ccreate("DP", 1, "i", 1), Ccreate("DC", 2, "n", 1),
                           Ccreate("DP", 3, "a", 1), Ccreate("DC", 3, "k", 1), Ccreate("DP", 4, "t", 1), Ccreate("DC", 4, "w", 2),
                           Cchild(2, "l", 1), Cchild(3, "b0", 2), Cchild(3, "l2", 1), Cchild(4, "b1", 2), Cchild(4, "m", 3),
                           Csettopdef(1, 4) >>,
               !.parents = {2, 3, 4}, !.max = [N |-> 1, L |-> 1, D |-> 4, P |-> 3, C |-> 3, I |-> 6, Q |-> 3, W |-> 4]],
    \* fixed hierarchy, mid (two-bit port a) instanced TWICE in top: uniquify has to clone it
    xf_port2 |-> [XfPortScope EXCEPT
                    !.init = << Cnew("N", "n"), Ccreate("NL", 1, "work", 0),
                                Ccreate("LD", 1, "leaf", 0), Ccreate("LD", 1, "mid", 0), Ccreate("LD", 1, "top", 0),
                                Ccreate("DP", 1, "i", 1), Ccreate("DP", 1, "o", 1),
                                Ccreate("DP", 2, "a", 2), Ccreate("DP", 2, "b", 1), Ccreate("DC", 2, "n", 1),
                                Ccreate("DP", 3, "t", 1), Ccreate("DC", 3, "m", 2),
                                Cchild(2, "l", 1), Cchild(3, "m", 2), Cchild(3, "m2", 2),
                                Csettopdef(1, 3) >>],
    \* as xf_port2, but the shared cell mid has NO name (names are optional in the API)
    xf_unnamed |-> [XfPortScope EXCEPT
                    !.init = << Cnew("N", "n"), Ccreate("NL", 1, "work", 0),
                                Ccreate("LD", 1, "leaf", 0), Ccreate("LD", 1, "mid", 0), Ccreate("LD", 1, "top", 0),
                                Ccreate("DP", 1, "i", 1), Ccreate("DP", 1, "o", 1),
                                Ccreate("DP", 2, "a", 2), Ccreate("DP", 2, "b", 1), Ccreate("DC", 2, "n", 1),
                                Ccreate("DP", 3, "t", 1), Ccreate("DC", 3, "m", 2),
                                Cchild(2, "l", 1), Cchild(3, "m", 2), Cchild(3, "m2", 2),
                                [op |-> "del_name", kind |-> "D", x |-> 2],
                                Csettopdef(1, 3) >>],
    \* fixed hierarchy, mid instanced twice in top; mid got its port z in front after the first instance existed
    xf_late_port |-> [XfPortScope EXCEPT
                        !.init = << Cnew("N", "n"), Ccreate("NL", 1, "work", 0),
                                    Ccreate("LD", 1, "leaf", 0), Ccreate("LD", 1, "mid", 0), Ccreate("LD", 1, "top", 0),
                                    Ccreate("DP", 1, "i", 1), Ccreate("DP", 1, "o", 1),
                                    Ccreate("DP", 2, "a", 1), Ccreate("DP", 2, "b", 1), Ccreate("DC", 2, "n", 1),
                                    Ccreate("DP", 3, "t", 1), Ccreate("DC", 3, "m", 3),
                                    Cchild(2, "l", 1), Cchild(3, "m", 2),
                                    Cnew("P", "z"), [op |-> "create", rel |-> "PQ", p |-> 6, name |-> "", n |-> 0],
                                    [op |-> "add", rel |-> "DP", p |-> 2, x |-> 6, pos |-> 0],
                                    Cchild(3, "m2", 2), Csettopdef(1, 3) >>,
                        !.max = [N |-> 1, L |-> 1, D |-> 3, P |-> 6, C |-> 2, I |-> 4, Q |-> 6, W |-> 4]],
    hier11 |-> HierScope({"C11"}, {}),
    hier12 |-> HierScope({"C12"}, {}),
    \* the definition b is shared two levels up, through two DIFFERENT parent definitions: top/x1:X/a1:A/b1:B and top/y1:Y/a2:A/b1:B
    hier_deep |-> [HierScope({"C11", "C12"}, {}) EXCEPT
                     !.init = << Cnew("N", "n"), Ccreate("NL", 1, "lib", 0), Ccreate("LD", 1, "b", 0), Ccreate("LD", 1, "a", 0),
                                 Ccreate("LD", 1, "x", 0), Ccreate("LD", 1, "y", 0), Ccreate("LD", 1, "top", 0),
                                 Ccreate("DP", 1, "p", 1), Ccreate("DC", 1, "c", 1), Cconnect(1, IPin(1)),
                                 Ccreate("DC", 2, "d", 1),
                                 Cchild(2, "b1", 1), Cchild(3, "a1", 2), Cchild(4, "a2", 2), Cchild(5, "x1", 3), Cchild(5, "y1", 4),
                                 Cconnect(2, OPin(1, 1)), Csettopdef(1, 5) >>,
                     !.ops = {}, !.parents = {}, !.max = [N |-> 1, L |-> 1, D |-> 5, P |-> 1, C |-> 2, I |-> 6, Q |-> 1, W |-> 2]],
    \* a pass-through cell: mid has two ports and a cable but NO children
    hier12_pt |-> [HierScope({"C12"}, {}) EXCEPT
                     !.init = << Cnew("N", "n"), Ccreate("NL", 1, "lib", 0), Ccreate("LD", 1, "leaf", 0), Ccreate("LD", 1, "mid", 0),
                                 Ccreate("LD", 1, "top", 0),
                                 Ccreate("DP", 1, "i", 1),
                                 Ccreate("DP", 2, "p", 1), Ccreate("DP", 2, "r", 1), Ccreate("DC", 2, "n", 1),
                                 Ccreate("DP", 3, "t", 1), Ccreate("DC", 3, "m", 2),
                                 Csettopdef(1, 3), Cchild(3, "m", 2), Cchild(3, "x", 1), Cchild(3, "y", 1) >>,
                     !.ops = {"b:connect"}, !.pos = {NoPos, 0}],
    \* mid has TWO ports (a feed-through cell is reachable: one inner wire tied to both)
    hier12_ft |-> [HierScope({"C12"}, {}) EXCEPT
                     !.init = << Cnew("N", "n"), Ccreate("NL", 1, "lib", 0), Ccreate("LD", 1, "leaf", 0), Ccreate("LD", 1, "mid", 0),
                                 Ccreate("LD", 1, "top", 0),
                                 Ccreate("DP", 1, "i", 1),
                                 Ccreate("DP", 2, "p", 1), Ccreate("DP", 2, "r", 1), Ccreate("DC", 2, "n", 1),
                                 Ccreate("DP", 3, "t", 1), Ccreate("DC", 3, "m", 2),
                                 Csettopdef(1, 3), Cchild(2, "l", 1), Cchild(3, "m", 2), Cchild(3, "x", 1) >>,
                     !.ops = {"b:connect"}, !.pos = {NoPos, 0}],
    \* as hier12_ft, but the top instance was installed with netlist.set_top_instance(<Instance>), as the EBLIF reader does
    hier12_topm |-> [HierScope({"C12", "C11"}, {}) EXCEPT
                     !.init = << Cnew("N", "n"), Ccreate("NL", 1, "lib", 0), Ccreate("LD", 1, "leaf", 0), Ccreate("LD", 1, "mid", 0),
                                 Ccreate("LD", 1, "top", 0),
                                 Ccreate("DP", 1, "i", 1),
                                 Ccreate("DP", 2, "p", 1), Ccreate("DP", 2, "r", 1), Ccreate("DC", 2, "n", 1),
                                 Ccreate("DP", 3, "t", 1), Ccreate("DC", 3, "m", 2),
                                 Cnew("I", "top"), [op |-> "set_ref", i |-> 1, d |-> 3], [op |-> "set_top_m", n |-> 1, i |-> 1],
                                 Cchild(2, "l", 1), Cchild(3, "m", 2), Cchild(3, "x", 1) >>,
                     !.ops = {"b:connect"}],
    \* queries between edits on the same objects: connections are made and taken away while references are held
    hier12_walk |-> [HierScope({"walkq"}, {}) EXCEPT !.walk = TRUE,
                     !.init = HierInit \o << Cchild(2, "l", 1), Cchild(3, "m", 2), Cchild(3, "x", 1) >>, !.ops = {"l:connect", "disconnect"}],
    \* connections also inserted at the FRONT of a wire's pin list (an instance pin ahead of a port pin)
    hier12_pos |-> [HierScope({"C12"}, {}) EXCEPT !.pos = {NoPos, 0}],
    hier_walk |-> [HierScope({"walkq"}, {"set_name:I", "set_name:C", "set_name:P", "del_name:I", "set_attr:P",
                                          "set_attr:C", "remove:DI", "unref", "remove:PQ", "remove:CW",
                                          "create:PQ", "create:CW"})
                   EXCEPT !.walk = TRUE, !.max = [N |-> 1, L |-> 1, D |-> 3, P |-> 4, C |-> 2, I |-> 5, Q |-> 6, W |-> 6]],
    ir_walk |->
      [init |-> MirrorInit,
       ops |-> {"add:DP", "create:DP", "create:PQ", "add:PQ", "remove:PQ", "remove:DP", "remove_from:DP",
                "remove_from:PQ", "set_ref", "create_child", "remove:DI", "add:DI", "set_top_def", "set_top",
                "new:P", "new:Q", "new:I", "new:W", "connect", "disconnect", "disconnect_from", "reorder_pins",
                "reorder:PQ", "reorder:DP", "reorder:DI", "create:CW", "add:CW", "remove:CW", "remove_from:CW",
                "create:DC", "remove:DC", "set_name:P", "set_name:I", "del_name:P", "create_n:PQ", "create_n:CW"},
       max |-> [N |-> 1, L |-> 1, D |-> 3, P |-> 6, C |-> 2, I |-> 4, Q |-> 8, W |-> 3],
       names |-> {U, "a", "b"}, vals |-> {}, pos |-> {NoPos, 0, 1}, createN |-> {0, 2}, walk |-> TRUE],
    hier_edit |-> HierScope({"hcheck"}, {"remove:DI", "unref", "untop", "remove:LD", "remove:NL"}),
    \* three levels deep, with referencing instances that contribute no occurrence: a removed child of top that
    \* still references mid, and an instance of mid inside a definition nothing instantiates
    hier_ghost |-> [HierScope({"hcheck", "C11"}, {"remove:DI"}) EXCEPT
                      !.init = << Cnew("N", "n"), Ccreate("NL", 1, "lib", 0), Ccreate("LD", 1, "leaf", 0), Ccreate("LD", 1, "a", 0),
                                  Ccreate("LD", 1, "m", 0), Ccreate("LD", 1, "top", 0), Ccreate("LD", 1, "spare", 0),
                                  Ccreate("DP", 1, "i", 1), Ccreate("DC", 2, "w", 2), Csettopdef(1, 4),
                                  Cchild(2, "b", 1), Cchild(3, "a", 2), Cchild(4, "m1", 3), Cchild(4, "m2", 3), Cchild(4, "x", 1),
                                  Cchild(5, "s1", 2), Cchild(5, "s2", 3),
                                  [op |-> "remove", rel |-> "DI", p |-> 4, x |-> 5] >>,
                      !.max = [N |-> 1, L |-> 1, D |-> 5, P |-> 1, C |-> 1, I |-> 8, Q |-> 1, W |-> 2], !.parents = {}],
    \* an instance that never had a name is assigned name = None (and a named one too)
    hier_none |-> [HierScope({"hcheck", "C11"}, {}) EXCEPT
                      !.init = HierInit \o << Cchild(2, NoVal, 1), Cchild(3, "m", 2), Cchild(3, "x", 1),
                                              [op |-> "set_name_none", kind |-> "I", x |-> 2],
                                              [op |-> "set_name_none", kind |-> "I", x |-> 4] >>,
                      !.ops = {}, !.parents = {}],
    \* a cell instanced twice TWO levels above the elements asked for: top/m1:m/a:a/b:leaf and top/m2:m/a:a/b:leaf
    hier_twice |-> [HierScope({"hcheck", "C11"}, {}) EXCEPT
                      !.init = << Cnew("N", "n"), Ccreate("NL", 1, "lib", 0), Ccreate("LD", 1, "leaf", 0), Ccreate("LD", 1, "a", 0),
                                  Ccreate("LD", 1, "m", 0), Ccreate("LD", 1, "top", 0),
                                  Ccreate("DP", 1, "i", 1), Ccreate("DC", 2, "w", 2), Csettopdef(1, 4),
                                  Cchild(2, "b", 1), Cchild(3, "a", 2), Cchild(4, "m1", 3), Cchild(4, "m2", 3), Cchild(4, "x", 1),
                                  Cconnect(1, OPin(2, 1)) >>,
                      !.ops = {}, !.max = [N |-> 1, L |-> 1, D |-> 4, P |-> 1, C |-> 1, I |-> 6, Q |-> 1, W |-> 2], !.parents = {}],
    naming |-> NamingScope("DEFAULT", {}),
    naming_edif |-> NamingScope("EDIF", {}),
    \* netlist.set_top_instance(<Definition>, instance_name) with names that cells of the library carry
    naming_top |-> [NamingScope("DEFAULT", {}) EXCEPT !.ops = {"set_top_dm", "set_name:D"}, !.names = {"a", "b", "A"},
                    !.max = [N |-> 1, L |-> 1, D |-> 3, P |-> 2, C |-> 1, I |-> 3, Q |-> 0, W |-> 0]],
    \* identifiers at the length limits: 255 / 256 characters, plain and with a leading &
    naming_long |-> [NamingScope("EDIF", {}) EXCEPT !.vals = {"@255:x", "@256:x", "&256:x", "&257:x"},
                     !.ops = {"set_eid:P", "set_eid:D", "new:P", "add:DP"}],
    \* policy adoption: an EDIF-policy netlist (library "a", cell "a" with port "a") and, built while the default was
    \* DEFAULT, a stand-alone port, a stand-alone cell with a port of its own and a stand-alone instance; they are
    \* added to the EDIF parents and then renamed / given identifiers (legal, illegal, case variants)
    naming_adopt |-> [NamingScope("EDIF", {"add:DP", "add:LD", "add:DI"}) EXCEPT
                      !.init = @ \o << Csetdefault("DEFAULT"), Cnew("P", "b"), Cnew("D", "b"), Ccreate("DP", 3, "a", 0),
                                       Cnew("I", "b"), Cnew("P", "A") >>,
                      !.ops = {"add:DP", "add:LD", "add:DI", "set_eid:P", "set_eid:D", "set_name:P", "set_name:D"},
                      !.max = [N |-> 1, L |-> 1, D |-> 3, P |-> 5, C |-> 1, I |-> 3, Q |-> 0, W |-> 0]],
    \* the other direction: under the DEFAULT default, a stand-alone cell built under the EDIF policy whose cable and
    \* instance (and port) share one name - legal in either policy - is added to a DEFAULT library
    naming_adopt2 |-> [NamingScope("DEFAULT", {"add:LD", "add:DP"}) EXCEPT
                      !.init = @ \o << Csetdefault("EDIF"), Cnew("D", "z"), Ccreate("DC", 3, "s", 0), Cchild(3, "s", 2),
                                       Ccreate("DP", 3, "s", 0), Cnew("P", "z"), Csetdefault("DEFAULT") >>,
                      !.ops = {"add:LD", "add:DP", "set_name:D", "set_eid:D"},
                      !.max = [N |-> 1, L |-> 1, D |-> 3, P |-> 4, C |-> 2, I |-> 3, Q |-> 0, W |-> 0],
                      !.lookupVals = {"a", "A", "b", "z", "s"}],
    \* a second library: its cells (a name that is free in the first library, and one that is taken there) are
    \* offered to the first library while they still belong to the second, and the other way round
    naming_two |-> [NamingScope("DEFAULT", {"add:DP", "new:C", "add:DC", "create:DC", "remove:DC", "set_name:C"}) EXCEPT
                      !.init = @ \o << Ccreate("NL", 1, "c", 0), Ccreate("LD", 2, "z", 0), Ccreate("LD", 2, "a", 0),
                                       Ccreate("DP", 3, "z", 0) >>,
                      !.max = [N |-> 1, L |-> 2, D |-> 5, P |-> 3, C |-> 2, I |-> 2, Q |-> 0, W |-> 0],
                      !.lookupVals = {"a", "A", "b", "z"}],
    naming_mix |-> NamingScope("DEFAULT", {"set_default", "set_ns:P", "set_ns:D"}),
    conn |->
      [init |-> ConnInit,
       ops |-> {"connect", "disconnect", "disconnect_from", "reorder_pins", "create:PQ", "add:PQ",
                "remove:PQ", "remove_from:PQ", "reorder:PQ", "new:Q", "remove:DP", "add:DP",
                "remove:CW", "add:CW", "reorder:CW", "set_attr:C", "set_attr:P"},
       max |-> [N |-> 1, L |-> 1, D |-> 2, P |-> 2, C |-> 1, I |-> 2, Q |-> 3, W |-> 2],
       names |-> {U}, vals |-> {}, pos |-> {NoPos, 0}, createN |-> {0}],
    mirror |->
      [init |-> MirrorInit,
       ops |-> {"add:DP", "create:DP", "create:PQ", "add:PQ", "remove:PQ", "remove:DP", "remove_from:DP",
                "remove_from:PQ", "set_ref", "create_child", "remove:DI", "add:DI", "set_top_def",
                "set_top", "new:P", "new:Q", "connect", "create_n:PQ"},
       max |-> [N |-> 1, L |-> 1, D |-> 3, P |-> 5, C |-> 1, I |-> 4, Q |-> 6, W |-> 1],
       names |-> {U, "a"}, vals |-> {}, pos |-> {NoPos}, createN |-> {0, 2}],
    mirror_add |->
      [init |-> MirrorInit,
       ops |-> {"new:P", "new:Q", "create:PQ", "add:DP", "add:PQ", "remove:DP", "remove:PQ", "set_ref"},
       max |-> [N |-> 1, L |-> 1, D |-> 3, P |-> 5, C |-> 1, I |-> 3, Q |-> 6, W |-> 1],
       names |-> {U, "a"}, vals |-> {}, pos |-> {NoPos, 0}, createN |-> {0}],
    contain |->
      [init |-> ContainInit,
       ops |-> {"create:NL", "add:NL", "remove:NL", "remove_from:NL", "reorder:NL", "new:L",
                "create:LD", "add:LD", "remove:LD", "remove_from:LD", "reorder:LD", "new:D"},
       max |-> [N |-> 2, L |-> 3, D |-> 3, P |-> 0, C |-> 0, I |-> 0, Q |-> 0, W |-> 0],
       names |-> {U}, vals |-> {}, pos |-> {NoPos, 0}, createN |-> {0}],
    body |->
      [init |-> BodyInit,
       ops |-> {"create:DP", "add:DP", "remove:DP", "remove_from:DP", "reorder:DP", "new:P",
                "create:DC", "add:DC", "remove:DC", "remove_from:DC", "reorder:DC", "new:C",
                "create_child", "add:DI", "remove:DI", "remove_from:DI", "reorder:DI", "new:I",
                "create:CW", "add:CW", "remove:CW", "remove_from:CW", "new:W", "create_n:CW"},
       max |-> [N |-> 1, L |-> 1, D |-> 2, P |-> 3, C |-> 2, I |-> 2, Q |-> 2, W |-> 3],
       names |-> {U}, vals |-> {}, pos |-> {NoPos, 0}, createN |-> {0, 1}]
  ]
Scope == ScopeTable[ScopeName]

---------------------------------------------------------------------------
StateProps(s) == C01_State(s) /\ C02_State(s) /\ C10_Unique(s) /\ C10_LegalIds(s)
ActionProps(pre, c, out, post) ==
    /\ C01_ReorderPermutes(pre, c, post)
    /\ C02_RepointKeeps(pre, c, out, post)
    /\ C14_RefusedUnchanged(pre, out, post)
    /\ C10_RefusalExact(pre, c, out)
    /\ C07_Independent(pre, c, post)
    /\ (c.op \in IROps => C19_Suffices(pre, c))      \* the announcement design suffices for an exact mirror

Queries == IF "queries" \in DOMAIN Scope THEN Scope.queries ELSE {}
StepCands(s) == Cands(s, Scope) \cup (IF "parents" \in DOMAIN Scope THEN BuildCands(s, Scope) \cup LocalConnectCands(s, Scope) ELSE {})
QCands(s) ==
    (IF "C11" \in Queries THEN QueryCandsC11(s) ELSE {})
    \cup (IF "C12" \in Queries THEN QueryCandsC12(s) ELSE {})
    \cup (IF "hcheck" \in Queries THEN HCheckCands(s) ELSE {})
    \cup (IF "xf" \in Queries THEN XfCands(s) ELSE {})
    \cup (IF "xfe" \in Queries THEN XfAgainCands(s) ELSE {})
    \cup (IF "clone" \in Queries THEN CloneCands(s) ELSE {})
    \cup (IF "C20" \in Queries THEN CompareCands(s) ELSE {})
    \cup FmtCands(s, Queries)
    \cup (IF "C17" \in Queries THEN NameCands(s) ELSE {})
    \cup (IF "C17re" \in Queries THEN ReexportCands(s) ELSE {})
    \cup (IF "C13e" \in Queries THEN EdifDirectProduct(s) ELSE {})
    \cup (IF "C13d" \in Queries THEN DirectProduct(s) ELSE {})
    \cup VlogCands(s, Queries)
    \cup EblifCands(s, Queries)
    \cup ComposeCands(s, Queries)
    \cup ParseCands(s, Queries)
    \cup (IF "C13" \in Queries THEN RandomSubset(Scope.sample * (MaxDepth + 1), QueryProduct(s)) \cup DirectProduct(s)
                                    \cup IndirectCableProduct(s) \cup IndexedNameProduct(s) ELSE {})
    \cup (IF "xf2" \in Queries
          THEN StepCands(s) \cup {[op |-> "uniquify", n |-> n] : n \in IdsN(s)}
               \cup {[op |-> "seq", calls |-> << [op |-> "uniquify", n |-> n], [op |-> "flatten", n |-> n] >>] : n \in IdsN(s)}
          ELSE {})

Walk == "walk" \in DOMAIN Scope /\ Scope.walk
NextCands(s) == IF Walk /\ "walkq" \in Queries THEN StepCands(s) \cup WalkQueryCands(s) ELSE StepCands(s)

Init == ir = ApplySeqX(Empty, Scope.init) /\ hist = <<>>
Next == \E c \in NextCands(ir) :
          LET r == ApplyX(ir, c) IN
          /\ Assert(ActionProps(ir, c, r.out, r.s), <<"MODEL-VIOLATION action property", c>>)
          /\ ir' = r.s
          /\ hist' = Append(hist, c)
vars == <<ir, hist>>
Spec == Init /\ [][Next]_vars
View == ir
DepthBound == Len(hist) <= MaxDepth

Inv_C01_ParentChild == C01_ParentChild(ir)
Inv_C01_PinWire     == C01_PinWire(ir)
Inv_C02_RefSets     == C02_RefSets(ir)
Inv_C02_OuterPins   == C02_OuterPinMirror(ir)
Inv_C02_Dropped     == C02_DroppedOffWire(ir)
Inv_C10_Unique      == C10_Unique(ir)
Inv_C10_LegalIds    == C10_LegalIds(ir)
(* the transformation ALGORITHMS of Transform.tla satisfy C08 / C09 on every design of the scope *)
Inv_C08_Model ==
    ("xf" \in Queries) =>
        LET u == Uniquify(ir, 1) IN
        /\ C08_Unique(u, 1) /\ C08_ElabPreserved(ir, u, 1) /\ C08_WF(ir, u) /\ C08_FreshNames(ir, u, 1)
        /\ Uniquify(u, 1) = u
Inv_C09_Model ==
    ("xf" \in Queries) =>
        LET u == Uniquify(ir, 1)  f == Flatten(u, 1) IN
        /\ C09_OnlyLeaves(f, 1) /\ C09_LeafBijection(u, f, 1) /\ C09_NetsPreserved(u, f, 1) /\ C09_WF(u, f)
(* the clone MODEL of Clone.tla satisfies the C07 clauses for every element of every design *)
Inv_C07_Model ==
    ("clone" \in Queries) =>
        \A c \in CloneCands(ir) :
            LET r == ApplyX(ir, c)
                cl == CloneClauses(ir, c, r.out, r.s, r.ret, [none |-> 0]) IN
            \A j \in DOMAIN cl : IF cl[j][2] THEN TRUE ELSE PrintT(<<"MODEL-C07", cl[j][1], c>>) /\ FALSE
Inv_CloneDefAgrees == ("clone" \in Queries) => \A d \in IdsD(ir) : CloneOf(ir, "D", d).s = CloneDef(ir, d)
(* the two notions used by C20 are consistent: a faithful copy differs in no examined aspect *)
Inv_C20_Model == ("C20" \in Queries) => (C07_Iso(ir, ir, "N", 1, 2) => ~Differs(ir, 1, 2) /\ ~Differs(ir, 2, 1))
Inv_OracleSane      == (Queries \cap {"C11", "C12", "xf"} # {}) => OracleSane(ir)

EmitState ==
    IF Emit /\ Len(hist) <= MaxDepth THEN PrintT(<<"ST", ToJson([h |-> hist, c |-> (IF Walk THEN {} ELSE IF Queries = {} THEN StepCands(ir) ELSE QCands(ir)), walk |-> Walk, wq |-> ("walkq" \in Queries)])>>) ELSE TRUE
LookupVals == IF "lookupVals" \in DOMAIN Scope THEN Scope.lookupVals ELSE {}
EmitInit == PrintT(<<"INIT", ToJson([init |-> Scope.init, lookup |-> LookupVals])>>)
ASSUME Emit => EmitInit
=============================================================================
