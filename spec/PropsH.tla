------------------------------ MODULE PropsH ------------------------------
(***************************************************************************)
(* Predicates of C11 and C12 over an observed query: the pre-state, the    *)
(* call, and what the implementation returned.                             *)
(*   ret  : sequence of hierarchical references (sequences of <<kind,id>>) *)
(*   info : per returned (or checked) reference                            *)
(*          [h, name, valid, unique, same, hash]                           *)
(* The oracle is the elaboration semantics of Hier.tla (ExpectedHQ).       *)
(***************************************************************************)
EXTENDS Sys

IsC11Query(c) == c.op = "hq" /\ c.sel = "DEFAULT"
IsC12Query(c) == c.op = "hq" /\ c.sel # "DEFAULT"

(* exactly one reference per occurrence: no omissions, no duplicates *)
(* A port or pin as the root of a cable / wire query (alone, or in a collection with the netlist): the    *)
(* statement does not pin down how far the connectivity is followed from it (the code answers "inside" for *)
(* wires and "inside and below" for cables), so for these roots only this is asked: no reference twice,     *)
(* only valid occurrences, and everything the attached-inside oracle / the netlist root alone would give.   *)
ItemRooted(c) == (c.root.t = "M") \/ (c.root.t = "E" /\ c.root.kind \in {"P", "Q"} /\ c.fn \in {"hcables", "hwires"})
C11_ExactlyOnce(pre, c, ret) ==
    IsC11Query(c) =>
       IF ItemRooted(c)
       THEN /\ NoDup(ret)
            /\ SeqSet(ret) \subseteq OccOfFn(pre, TheNetlist(pre), c.fn)
            /\ ExpectedHQ(pre, c) \subseteq SeqSet(ret)
       ELSE NoDup(ret) /\ SeqSet(ret) = ExpectedHQ(pre, c)
(* each returned reference is reported valid and named by the path *)
C11_ValidNamed(pre, c, info) ==
    (IsC11Query(c) \/ c.op = "hcheck") => \A j \in DOMAIN info :
        (Valid(pre, info[j].h) /\ (c.op = "hq" \/ info[j].valid = TRUE)) =>
            (info[j].valid /\ info[j].name = HNameStr(pre, info[j].h))
(* two references to the same path are the same object with equal hash *)
C11_Canonical(c, info) ==
    c.op \in {"hq", "hcheck"} => \A j \in DOMAIN info : info[j].same /\ info[j].hash
(* validity / uniqueness reported in agreement with the current netlist *)
C11_ValidityTracksEdits(pre, c, info) ==
    c.op = "hcheck" => \A j \in DOMAIN info :
        /\ info[j].valid = Valid(pre, c.hs[j])
        \* uniqueness is only pinned down for references to instances (the element occurs once in
        \* the elaborated design); for ports/cables/wires/pins inside a shared definition the
        \* statement does not say which notion applies, so only "invalid => not unique" is asked
        /\ (Last(c.hs[j])[1] = "I" => info[j].unique = Unique(pre, c.hs[j]))
        /\ (~Valid(pre, c.hs[j]) => ~info[j].unique)

(* tracing returns exactly the net / the inside wire / the outside wire / the attached pins *)
C12_Exact(pre, c, ret) ==
    IsC12Query(c) => NoDup(ret) /\ SeqSet(ret) = ExpectedHQ(pre, c)
C12_All(pre, c, ret)     == (IsC12Query(c) /\ c.sel = "ALL") => C12_Exact(pre, c, ret)
C12_Narrow(pre, c, ret)  == (IsC12Query(c) /\ c.sel \in {"INSIDE", "OUTSIDE"}) => C12_Exact(pre, c, ret)
C12_PinsOfWire(pre, c, ret) == (IsC12Query(c) /\ c.fn = "hpins") => C12_Exact(pre, c, ret)

(* model-level sanity of the oracle itself (checked as invariants of the build scopes) *)
OracleSane(s) ==
    LET n == TheNetlist(s) IN
    /\ Acyclic(s)
    /\ \A hw \in OccWire(s, n) : \A other \in Net(s, hw) : other \in OccWire(s, n) /\ Net(s, other) = Net(s, hw)
    /\ \A h \in OccAll(s, n) : Valid(s, h)
=============================================================================
