------------------------------ MODULE PropsC ------------------------------
(***************************************************************************)
(* C07 - clones are faithful, self-contained, independent.                 *)
(* Judged on an observed (pre, clone call, post, returned root) tuple by a *)
(* structural correspondence built by walking source and copy in parallel  *)
(* (children are paired by position), so it does not depend on the ids the *)
(* copy's elements received.                                               *)
(***************************************************************************)
EXTENDS PropsT

(* element pairs <<kind, a, b>> obtained by walking the source subtree rooted at (kind, a) in  *)
(* pre and the copy rooted at (kind, b) in post in parallel                                    *)
ZipIds(q1, q2) == {<<q1[j], q2[j]>> : j \in DOMAIN q1 \cap DOMAIN q2}
RECURSIVE Corr(_, _, _, _, _)
Corr(pre, post, kind, a, b) ==
    {<<kind, a, b>>} \cup
    CASE kind = "N" -> UNION {Corr(pre, post, "L", z[1], z[2]) : z \in ZipIds(pre.nlLibs[a], post.nlLibs[b])}
                       \cup (IF pre.nlTop[a] # None /\ post.nlTop[b] # None
                             THEN {<<"I", pre.nlTop[a], post.nlTop[b]>>} ELSE {})
      [] kind = "L" -> UNION {Corr(pre, post, "D", z[1], z[2]) : z \in ZipIds(pre.libDefs[a], post.libDefs[b])}
      [] kind = "D" -> UNION {Corr(pre, post, "P", z[1], z[2]) : z \in ZipIds(pre.defPorts[a], post.defPorts[b])}
                       \cup UNION {Corr(pre, post, "C", z[1], z[2]) : z \in ZipIds(pre.defCables[a], post.defCables[b])}
                       \cup {<<"I", z[1], z[2]>> : z \in ZipIds(pre.defKids[a], post.defKids[b])}
      [] kind = "P" -> {<<"Q", z[1], z[2]>> : z \in ZipIds(pre.portPins[a], post.portPins[b])}
      [] kind = "C" -> {<<"W", z[1], z[2]>> : z \in ZipIds(pre.cabWires[a], post.cabWires[b])}
      [] OTHER -> {}

MapOf(M, kind, a) ==      \* image of source element a under the correspondence, None if not copied
    LET H == {m \in M : m[1] = kind /\ m[2] = a} IN IF H = {} THEN None ELSE (CHOOSE m \in H : TRUE)[3]
Copied(M, kind, a) == \E m \in M : m[1] = kind /\ m[2] = a
MapRef(M, r) ==           \* image of a pin reference
    IF r.k = "i" THEN IPin(MapOf(M, "Q", r.q))
    ELSE OPin(MapOf(M, "I", r.i), IF Copied(M, "Q", r.q) THEN MapOf(M, "Q", r.q) ELSE r.q)
RefCopied(M, r) == IF r.k = "i" THEN Copied(M, "Q", r.q) ELSE r.k = "o" /\ Copied(M, "I", r.i)

SameShape(q1, q2) == Len(q1) = Len(q2)

(* the copy has the same names, data, ordering, port shapes and connections *)
C07_PairOK(pre, post, M, m, rootkind) ==
    LET kind == m[1]  a == m[2]  b == m[3] IN
    CASE kind = "N" -> /\ post.nlData[b] = pre.nlData[a] /\ SameShape(pre.nlLibs[a], post.nlLibs[b])
                       /\ (pre.nlTop[a] = None) = (post.nlTop[b] = None)
      [] kind = "L" -> post.libData[b] = pre.libData[a] /\ SameShape(pre.libDefs[a], post.libDefs[b])
      [] kind = "D" -> /\ post.defData[b] = pre.defData[a]
                       /\ SameShape(pre.defPorts[a], post.defPorts[b])
                       /\ SameShape(pre.defCables[a], post.defCables[b])
                       /\ SameShape(pre.defKids[a], post.defKids[b])
      [] kind = "P" -> /\ post.portData[b] = pre.portData[a] /\ post.portAttr[b] = pre.portAttr[a]
                       /\ SameShape(pre.portPins[a], post.portPins[b])
      [] kind = "C" -> /\ post.cabData[b] = pre.cabData[a] /\ post.cabAttr[b] = pre.cabAttr[a]
                       /\ SameShape(pre.cabWires[a], post.cabWires[b])
      [] kind = "Q" -> \* connected to the copy of its wire if that was copied, else cut
                       post.pinWire[b] = (IF pre.pinWire[a] # None /\ Copied(M, "W", pre.pinWire[a])
                                          THEN MapOf(M, "W", pre.pinWire[a]) ELSE None)
      [] kind = "W" -> \* lists the copies of the copied pins, in the same order; other pins are cut
                       post.wirePins[b] =
                          LET kept == SelectSeq(pre.wirePins[a], LAMBDA r : RefCopied(M, r)) IN
                          [j \in DOMAIN kept |-> MapRef(M, kept[j])]
      [] kind = "I" -> /\ post.instData[b] = pre.instData[a]
                       /\ post.instTop[b] = (rootkind = "N" /\ pre.instTop[a])
                       /\ post.instRef[b] = (IF pre.instRef[a] # None /\ Copied(M, "D", pre.instRef[a])
                                             THEN MapOf(M, "D", pre.instRef[a]) ELSE pre.instRef[a])
                       /\ SameShape(pre.instPins[a], post.instPins[b])
                       /\ \A j \in DOMAIN pre.instPins[a] \cap DOMAIN post.instPins[b] :
                             LET e == pre.instPins[a][j]  f == post.instPins[b][j] IN
                             /\ f.ip = (IF Copied(M, "Q", e.ip) THEN MapOf(M, "Q", e.ip) ELSE e.ip)
                             /\ f.wire = (IF e.wire # None /\ Copied(M, "W", e.wire) THEN MapOf(M, "W", e.wire) ELSE None)
C07_Iso(pre, post, kind, a, b) ==
    LET M == Corr(pre, post, kind, a, b) IN \A m \in M : C07_PairOK(pre, post, M, m, kind)

(* the copy shares no element with the original: every element of the copy is new *)
C07_Disjoint(pre, post, kind, a, b) ==
    \A m \in Corr(pre, post, kind, a, b) : m[3] > CountOf(pre, m[1])
(* a netlist copy is closed: every link from an element of the copy stays inside the copy *)
C07_Closed(pre, post, kind, a, b) ==
    kind = "N" =>
      LET M == Corr(pre, post, kind, a, b)
          new(k, x) == x > CountOf(pre, k) IN
      \A m \in M :
         CASE m[1] = "I" -> /\ (post.instRef[m[3]] # None => new("D", post.instRef[m[3]]))
                            /\ (post.instParent[m[3]] # None => new("D", post.instParent[m[3]]))
                            /\ \A j \in DOMAIN post.instPins[m[3]] :
                                  LET f == post.instPins[m[3]][j] IN
                                  new("Q", f.ip) /\ new("Q", f.inner) /\ (f.wire # None => new("W", f.wire))
           [] m[1] = "D" -> \A i \in post.defRefs[m[3]] : new("I", i)
           [] m[1] = "Q" -> post.pinWire[m[3]] # None => new("W", post.pinWire[m[3]])
           [] m[1] = "W" -> \A j \in DOMAIN post.wirePins[m[3]] :
                               LET r == post.wirePins[m[3]][j] IN
                               r.k \in {"i", "o"} /\ new("Q", r.q) /\ (r.k = "o" => new("I", r.i))
           [] OTHER -> TRUE
(* the returned root is detached *)
C07_Detached(post, kind, b) == kind # "N" => ParentOf(post, kind, b) = None
(* the source is not modified, apart from the documented reference-set additions *)
C07_SourceUnchanged(pre, post) ==
    /\ \A f \in DOMAIN pre \ {"defRefs", "nsDefault"} :
          \A x \in DOMAIN pre[f] : x \in DOMAIN post[f] /\ post[f][x] = pre[f][x]
    /\ post.nsDefault = pre.nsDefault
    /\ \A d \in DOMAIN pre.defRefs :
          /\ pre.defRefs[d] \subseteq post.defRefs[d]
          /\ \A i \in post.defRefs[d] \ pre.defRefs[d] : i > NumI(pre) /\ post.instRef[i] = d

---------------------------------------------------------------------------
(* independence: an edit or transformation whose arguments all belong to one netlist leaves the *)
(* other netlist exactly as it was                                                               *)
SideElems(s, n) ==
    LET Ls == SeqSet(s.nlLibs[n])
        Ds == UNION {SeqSet(s.libDefs[l]) : l \in Ls}
        Ps == UNION {SeqSet(s.defPorts[d]) : d \in Ds}
        Cs == UNION {SeqSet(s.defCables[d]) : d \in Ds}
        Is == UNION {SeqSet(s.defKids[d]) : d \in Ds} \cup (IF s.nlTop[n] = None THEN {} ELSE {s.nlTop[n]})
        Qs == UNION {SeqSet(s.portPins[p]) : p \in Ps}
        Ws == UNION {SeqSet(s.cabWires[c]) : c \in Cs}
    IN [N |-> {n}, L |-> Ls, D |-> Ds, P |-> Ps, C |-> Cs, I |-> Is, Q |-> Qs, W |-> Ws]
FieldsOfKind == [N |-> {"nlLibs", "nlTop", "nlData"}, L |-> {"libNl", "libDefs", "libData"},
                 D |-> {"defLib", "defPorts", "defCables", "defKids", "defRefs", "defData"},
                 P |-> {"portDef", "portPins", "portData", "portAttr"},
                 C |-> {"cabDef", "cabWires", "cabData", "cabAttr"},
                 I |-> {"instParent", "instRef", "instPins", "instTop", "instData"},
                 Q |-> {"pinPort", "pinWire"}, W |-> {"wireCable", "wirePins"}]
SideUnchanged(pre, post, side) ==
    \A kind \in DOMAIN FieldsOfKind : \A f \in FieldsOfKind[kind] : \A x \in side[kind] :
        x \in DOMAIN post[f] /\ post[f][x] = pre[f][x]
RefElems(r) == IF r.k = "i" THEN {<<"Q", r.q>>} ELSE {<<"I", r.i>>, <<"Q", r.q>>}
ArgElems(c) ==      \* the elements a call names, as <<kind, id>>
    CASE c.op \in {"add", "remove"} -> {<<Rel[c.rel].pk, c.p>>, <<Rel[c.rel].ck, c.x>>}
      [] c.op \in {"create", "create_n"} -> {<<Rel[c.rel].pk, c.p>>}
      [] c.op = "create_child" -> {<<"D", c.p>>} \cup (IF c.ref = None THEN {} ELSE {<<"D", c.ref>>})
      [] c.op = "remove_from" -> {<<Rel[c.rel].pk, c.p>>} \cup {<<Rel[c.rel].ck, y>> : y \in c.xs}
      [] c.op = "reorder" -> {<<Rel[c.rel].pk, c.p>>} \cup {<<Rel[c.rel].ck, y>> : y \in SeqSet(c.seq)}
      [] c.op \in {"connect", "disconnect"} -> {<<"W", c.w>>} \cup RefElems(c.pin)
      [] c.op = "set_ref" -> {<<"I", c.i>>} \cup (IF c.d = None THEN {} ELSE {<<"D", c.d>>})
      [] c.op \in {"set_name", "del_name", "set_name_none", "set_item", "del_item", "pop_item", "mutate_props", "drop_prop"} -> {<<c.kind, c.x>>}
      [] c.op \in {"uniquify", "flatten"} -> {<<"N", c.n>>}
      [] OTHER -> {<<"?", 0>>}
SideClosed(s, side) ==      \* no link leaves the side (the two netlists are not entangled by earlier cross edits)
    /\ \A w \in side.W : \A j \in DOMAIN s.wirePins[w] :
          LET r == s.wirePins[w][j] IN
          r.k \in {"i", "o"} /\ r.q \in (side.Q \cup {0}) /\ (r.k = "o" => r.i \in side.I)
    /\ \A q \in side.Q : s.pinWire[q] \in side.W \cup {None}
    /\ \A i \in side.I : /\ s.instRef[i] \in side.D \cup {None}
                          /\ s.instParent[i] \in side.D \cup {None}
                          /\ \A j \in DOMAIN s.instPins[i] : s.instPins[i][j].wire \in side.W \cup {None}
    /\ \A d \in side.D : s.defRefs[d] \subseteq side.I
ForwardClosed(s, side) ==   \* as SideClosed, but instances outside may reference definitions of the side
    /\ \A w \in side.W : \A j \in DOMAIN s.wirePins[w] :
          LET r == s.wirePins[w][j] IN
          r.k \in {"i", "o"} /\ r.q \in (side.Q \cup {0}) /\ (r.k = "o" => r.i \in side.I)
    /\ \A q \in side.Q : s.pinWire[q] \in side.W \cup {None}
    /\ \A i \in side.I : /\ s.instRef[i] \in side.D \cup {None}
                          /\ s.instParent[i] \in side.D \cup {None}
                          /\ \A j \in DOMAIN s.instPins[i] : s.instPins[i][j].wire \in side.W \cup {None}
C07_Independent(pre, c, post) ==
    (NumN(pre) = 2 /\ SideClosed(pre, SideElems(pre, 1)) /\ SideClosed(pre, SideElems(pre, 2))) =>
      \A n \in {1, 2} :
         (\A e \in ArgElems(c) : e[1] \in DOMAIN FieldsOfKind /\ e[2] \in SideElems(pre, n)[e[1]]) =>
             SideUnchanged(pre, post, SideElems(pre, 3 - n))

CloneClauses(pre, c, out, post, ret, js) ==   \* js: the full logged post-state (class bits, lookup table)
    IF c.op = "clone" /\ out = "ok" /\ Len(ret) = 1 THEN
      LET b == ret[1] IN
      << <<"C07_Iso", C07_Iso(pre, post, c.kind, c.x, b)>>,
         <<"C07_Disjoint", C07_Disjoint(pre, post, c.kind, c.x, b)>>,
         \* closure is promised for a source netlist whose own links all resolve inside it
         <<"C07_Closed", (c.kind = "N" /\ ForwardClosed(pre, SideElems(pre, c.x))) => C07_Closed(pre, post, c.kind, c.x, b)>>,
         <<"C07_Detached", C07_Detached(post, c.kind, b)>>,
         <<"C07_SourceUnchanged", C07_SourceUnchanged(pre, post)>>,
         <<"C07_WF", (c.kind = "N" => ForwardClosed(pre, SideElems(pre, c.x))) => WF(post)>>,
         <<"C07_PublicClasses", ("badClass" \in DOMAIN js) => js.badClass = <<>>>>,
         <<"C07_Unique", C10_Unique(post)>>,
         \* the copy answers exact-name lookups like the original: as a scan of its children
         <<"C07_SameAnswers", ("lookup" \in DOMAIN js) => C10_LookupAgrees(post, js.lookup)>> >>
    ELSE <<>>
=============================================================================
