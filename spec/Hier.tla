------------------------------- MODULE Hier -------------------------------
(***************************************************************************)
(* Elaboration semantics of a netlist state: the tree of instance paths    *)
(* below the top instance, the occurrences of ports, pins, cables and      *)
(* wires inside every path, hierarchical names, validity and uniqueness of *)
(* a hierarchical reference, and hierarchical nets as connected components *)
(* across instance port boundaries.  Everything here is a pure operator on *)
(* an IR state record; it is the oracle for C11, C12 and (through Elab)    *)
(* for C08 and C09.  It does not imitate spydrnet's work-list algorithms.  *)
(*                                                                         *)
(* A hierarchical reference is a sequence of <<kind, id>> pairs:           *)
(*   <<I top>>, <<I top, I a, I b>>, <<I top, I a, C c, W w>>,              *)
(*   <<I top, P p, Q q>> ...                                               *)
(***************************************************************************)
EXTENDS IR

Last(q)  == q[Len(q)]
Front(q) == SubSeq(q, 1, Len(q) - 1)
KidsOfInst(s, i) == IF s.instRef[i] = None THEN <<>> ELSE s.defKids[s.instRef[i]]

(* instance paths starting at instance i (i included); needs an acyclic    *)
(* instantiation graph                                                      *)
RECURSIVE PathsBelow(_, _)
PathsBelow(s, i) ==
    {<<i>>} \cup UNION {{<<i>> \o p : p \in PathsBelow(s, c)} : c \in SeqSet(KidsOfInst(s, i))}
Acyclic(s) ==     \* no definition (transitively) instantiates itself
    LET Uses(d) == {s.instRef[i] : i \in SeqSet(s.defKids[d])} \ {None}
        RECURSIVE Reach(_, _)
        Reach(D, n) == IF n = 0 THEN D ELSE Reach(D \cup UNION {Uses(d) : d \in D}, n - 1)
    IN \A d \in IdsD(s) : d \notin Reach(Uses(d), NumD(s))

HI(p) == [j \in DOMAIN p |-> <<"I", p[j]>>]
TopOf(s, n) == s.nlTop[n]
Paths(s, n) == IF TopOf(s, n) = None THEN {} ELSE PathsBelow(s, TopOf(s, n))
DefAt(s, p) == s.instRef[Last(p)]

(* occurrences, per kind *)
OccInst(s, n)  == {HI(p) : p \in {pp \in Paths(s, n) : Len(pp) >= 2}}
OccPort(s, n)  == UNION {{HI(p) \o << <<"P", x>> >> : x \in SeqSet(s.defPorts[DefAt(s, p)])} :
                            p \in {pp \in Paths(s, n) : DefAt(s, pp) # None}}
OccPin(s, n)   == UNION {{h \o << <<"Q", q>> >> : q \in SeqSet(s.portPins[Last(h)[2]])} : h \in OccPort(s, n)}
OccCable(s, n) == UNION {{HI(p) \o << <<"C", c>> >> : c \in SeqSet(s.defCables[DefAt(s, p)])} :
                            p \in {pp \in Paths(s, n) : DefAt(s, pp) # None}}
OccWire(s, n)  == UNION {{h \o << <<"W", w>> >> : w \in SeqSet(s.cabWires[Last(h)[2]])} : h \in OccCable(s, n)}
OccAll(s, n)   == OccInst(s, n) \cup OccPort(s, n) \cup OccPin(s, n) \cup OccCable(s, n) \cup OccWire(s, n)
                  \cup (IF TopOf(s, n) = None THEN {} ELSE {<< <<"I", TopOf(s, n)>> >>})

InstPart(h) == SelectSeq(h, LAMBDA e : e[1] = "I")
ItemPart(h) == SelectSeq(h, LAMBDA e : e[1] # "I")
Depth(h)    == Len(InstPart(h))
(* the element a reference ends in: last instance for an instance reference, *)
(* otherwise the trailing port/pin/cable/wire                                *)
ItemOf(h) == Last(h)

(* hierarchical name: slash-joined names below the top, plus [index] for a   *)
(* wire/pin of an array bundle.  Names are returned as a sequence of name    *)
(* tokens and an index (-1 for none) so that no string formatting is needed. *)
NameOfElem(s, e) ==
    CASE e[1] = "I" -> s.instData[e[2]].name [] e[1] = "P" -> s.portData[e[2]].name
      [] e[1] = "C" -> s.cabData[e[2]].name
IndexIn(q, x) == MinOf({j \in DOMAIN q : q[j] = x})
IsScalarObs(attr, items) == IF Len(items) > 1 THEN FALSE ELSE attr.scalar
HName(s, h) ==
    LET e == Last(h)
        named == IF e[1] \in {"W", "Q"} THEN Front(h) ELSE h
        toks == [j \in 1..(Len(named) - 1) |-> NameOfElem(s, named[j + 1])]
        idx == CASE e[1] = "W" ->
                       LET c == s.wireCable[e[2]] IN
                       IF IsScalarObs(s.cabAttr[c], s.cabWires[c]) THEN -1
                       ELSE s.cabAttr[c].lower + IndexIn(s.cabWires[c], e[2]) - 1
                 [] e[1] = "Q" ->
                       LET p == s.pinPort[e[2]] IN
                       IF IsScalarObs(s.portAttr[p], s.portPins[p]) THEN -1
                       ELSE s.portAttr[p].lower + IndexIn(s.portPins[p], e[2]) - 1
                 [] OTHER -> -1
    IN [toks |-> toks, idx |-> idx]

(* the netlist a top-level instance belongs to, as the code determines it    *)
NetlistOfTop(s, t) ==
    LET d == s.instRef[t] IN
    IF d = None THEN None ELSE IF s.defLib[d] = None THEN None ELSE s.libNl[s.defLib[d]]
Valid(s, h) ==
    /\ Len(h) >= 1 /\ h[1][1] = "I" /\ h[1][2] \in IdsI(s)
    /\ LET n == NetlistOfTop(s, h[1][2]) IN n # None /\ TopOf(s, n) = h[1][2] /\ h \in OccAll(s, n)
(* unique: the referenced element occurs exactly once in the elaborated design *)
Unique(s, h) ==
    /\ Valid(s, h)
    /\ LET n == NetlistOfTop(s, h[1][2]) IN
       Cardinality({o \in OccAll(s, n) : ItemOf(o) = ItemOf(h)}) = 1

---------------------------------------------------------------------------
(* hierarchical connectivity *)
HWireOf(s, ip, w) ==      \* the hierarchical wire for wire w inside instance path ip (a seq of ids)
    HI(ip) \o << <<"C", s.wireCable[w]>>, <<"W", w>> >>
HPinOf(s, ip, q) == HI(ip) \o << <<"P", s.pinPort[q]>>, <<"Q", q>> >>
PathIds(h) == [j \in DOMAIN InstPart(h) |-> InstPart(h)[j][2]]

(* Only links that are local to one level of the hierarchy are followed: a wire of definition D carries     *)
(* pins of D's own ports and pins of D's children.  (The IR lets a wire hold any pin; following a foreign     *)
(* pin would leave the elaborated design - and need not terminate.)                                          *)
DefOfWire(s, w) == IF s.wireCable[w] = None THEN None ELSE s.cabDef[s.wireCable[w]]
DefOfPin(s, q)  == IF s.pinPort[q] = None THEN None ELSE s.portDef[s.pinPort[q]]
InsideWire(s, hp) ==      \* set with the wire attached inside the hierarchical pin, or {}
    LET q == Last(hp)[2]  w == s.pinWire[q] IN
    IF w = None \/ s.wireCable[w] = None \/ DefOfWire(s, w) = None \/ DefOfWire(s, w) # DefOfPin(s, q) THEN {}
    ELSE {HWireOf(s, PathIds(hp), w)}
OutsideWire(s, hp) ==     \* the wire attached to the instance's outer pin, one level up
    LET q == Last(hp)[2]  ip == PathIds(hp)  i == Last(ip) IN
    IF Len(ip) < 2 \/ ~HasOP(s, i, q) THEN {}
    ELSE LET w == OPWire(s, i, q) IN
         IF w = None \/ s.wireCable[w] = None \/ DefOfWire(s, w) = None \/ DefOfWire(s, w) # s.instParent[i] THEN {}
         ELSE {HWireOf(s, Front(ip), w)}
HPinsOfWire(s, hw) ==     \* port pins and sub-instance pins attached to a hierarchical wire
    LET w == Last(hw)[2]  ip == PathIds(hw)  d == DefOfWire(s, w) IN
    {IF r.k = "i" THEN HPinOf(s, ip, r.q) ELSE HPinOf(s, Append(ip, r.i), r.q) :
        r \in {rr \in SeqSet(s.wirePins[w]) :
                  /\ rr.k \in {"i", "o"} /\ s.pinPort[rr.q] # None /\ d # None
                  /\ (rr.k = "i" => DefOfPin(s, rr.q) = d)
                  /\ (rr.k = "o" => (rr.i \in IdsI(s) /\ s.instParent[rr.i] = d /\ DefOfPin(s, rr.q) = s.instRef[rr.i]))}}
(* every wire holds only pins of its own definition's ports and of that definition's children *)
Local(s) ==
    \A w \in IdsW(s) : \A j \in DOMAIN s.wirePins[w] :
        LET r == s.wirePins[w][j]  d == DefOfWire(s, w) IN
        /\ (r.k = "i" => (r.q \in IdsQ(s) /\ DefOfPin(s, r.q) = d))
        /\ (r.k = "o" => (r.i \in IdsI(s) /\ s.instParent[r.i] = d))
Adjacent(s, hw) ==
    UNION {InsideWire(s, hp) \cup OutsideWire(s, hp) : hp \in HPinsOfWire(s, hw)}
RECURSIVE NetClosure(_, _)
NetClosure(s, S) ==
    LET S2 == S \cup UNION {Adjacent(s, h) : h \in S} IN IF S2 = S THEN S ELSE NetClosure(s, S2)
Net(s, hw) == NetClosure(s, {hw})
NetOfPin(s, hp) == NetClosure(s, InsideWire(s, hp) \cup OutsideWire(s, hp))

(* everything connected, starting from a reference of any of the four kinds *)
ConnectedAll(s, h) ==
    LET k == Last(h)[1] IN
    CASE k = "W" -> Net(s, h)
      [] k = "C" -> UNION {Net(s, Append(h, <<"W", w>>)) : w \in SeqSet(s.cabWires[Last(h)[2]])}
      [] k = "Q" -> NetOfPin(s, h)
      [] k = "P" -> UNION {NetOfPin(s, Append(h, <<"Q", q>>)) : q \in SeqSet(s.portPins[Last(h)[2]])}

(* elaboration used by C08/C09: leaf occurrences and the partition of       *)
(* endpoints (leaf pins, top-level port pins) into nets                     *)
IsLeafDef(s, d) == s.defKids[d] = <<>> /\ s.defCables[d] = <<>>
=============================================================================
