-------------------------------- MODULE Sys --------------------------------
(***************************************************************************)
(* The system beyond the IR mutators: queries, and (added by later         *)
(* modules) clone / uniquify / flatten / compare / compose / parse.        *)
(* ApplyX extends IR!Apply: a query leaves the state unchanged and returns *)
(* the set of hierarchical references the elaboration semantics of Hier    *)
(* defines (ret is a SET here because the order of results is not part of  *)
(* any property).                                                          *)
(***************************************************************************)
EXTENDS Scopes, Compare

(* roots of a hierarchical query *)
RootN(n)        == [t |-> "N", id |-> n]
RootE(kind, x)  == [t |-> "E", kind |-> kind, id |-> x]
RootH(h)        == [t |-> "H", h |-> h]
RootS(kind, X)  == [t |-> "S", kind |-> kind, ids |-> X]      \* a collection of elements of one kind
HQ(fn, root, rec)      == [op |-> "hq", fn |-> fn, root |-> root, rec |-> rec, sel |-> "DEFAULT"]
HQS(fn, root, sel)     == [op |-> "hq", fn |-> fn, root |-> root, rec |-> FALSE, sel |-> sel]
HCheck(hs)             == [op |-> "hcheck", hs |-> hs]

OccOfFn(s, n, fn) ==
    CASE fn = "hinstances" -> OccInst(s, n) [] fn = "hports" -> OccPort(s, n)
      [] fn = "hpins" -> OccPin(s, n) [] fn = "hcables" -> OccCable(s, n) [] fn = "hwires" -> OccWire(s, n)
KindOfFn == [hinstances |-> "I", hports |-> "P", hpins |-> "Q", hcables |-> "C", hwires |-> "W"]
IsPrefixSeq(a, b) == Len(a) <= Len(b) /\ SubSeq(b, 1, Len(a)) = a
TheNetlist(s) == 1      \* the generated families have one netlist

(* occurrences of a given element: root of the function's own kind, or a definition / library  *)
(* (everything of the function's kind that belongs to it)                                      *)
DefOfItem(s, e) ==
    CASE e[1] = "P" -> s.portDef[e[2]] [] e[1] = "C" -> s.cabDef[e[2]]
      [] e[1] = "Q" -> (IF s.pinPort[e[2]] = None THEN None ELSE s.portDef[s.pinPort[e[2]]])
      [] e[1] = "W" -> (IF s.wireCable[e[2]] = None THEN None ELSE s.cabDef[s.wireCable[e[2]]])
      [] e[1] = "I" -> s.instRef[e[2]]
ExpectedOfElem(s, n, fn, kind, x) ==
    LET top == TopOf(s, n)
        occ == IF fn = "hinstances" THEN OccInst(s, n) \cup (IF top = None THEN {} ELSE {<< <<"I", top>> >>})
               ELSE OccOfFn(s, n, fn) IN
    CASE kind = "D" -> {h \in occ : DefOfItem(s, Last(h)) = x}
      [] kind = "L" -> {h \in occ : DefOfItem(s, Last(h)) # None /\ s.defLib[DefOfItem(s, Last(h))] = x}
      [] OTHER -> {h \in occ : Last(h) = <<kind, x>>}

(* a pin or port as the root of a wire / cable query: what is attached INSIDE, in every occurrence *)
WiresOfItem(s, n, kind, x) ==
    LET pins == IF kind = "Q" THEN {x} ELSE SeqSet(s.portPins[x]) IN
    UNION {InsideWire(s, hp) : hp \in {h \in OccPin(s, n) : Last(h)[2] \in pins}}
ExpectedOfItem(s, n, fn, kind, x) ==
    IF kind \in {"P", "Q"} /\ fn = "hwires" THEN WiresOfItem(s, n, kind, x)
    ELSE IF kind \in {"P", "Q"} /\ fn = "hcables" THEN {Front(hw) : hw \in WiresOfItem(s, n, kind, x)}
    ELSE ExpectedOfElem(s, n, fn, kind, x)
RootHS(hs) == [t |-> "HS", hs |-> hs]                 \* a collection (in this order) of hierarchical references
RootM(n, kind, x) == [t |-> "M", id |-> n, kind |-> kind, x |-> x]     \* the collection [netlist n, element x]
RECURSIVE ExpectedHQ(_, _)
ExpectedHQ(s, c) ==
    LET n == IF c.root.t \in {"N", "M"} THEN c.root.id ELSE TheNetlist(s)
        occ == OccOfFn(s, n, c.fn)
        top == TopOf(s, n) IN
    CASE c.root.t = "N" ->
           IF c.rec THEN occ
           ELSE {h \in occ : Depth(h) = (IF c.fn = "hinstances" THEN 2 ELSE 1)}
      [] c.root.t = "E" /\ c.sel = "ALL" ->    \* the element itself as the start: the nets of ALL its occurrences
           UNION {ConnectedAll(s, h) : h \in {hh \in OccWire(s, n) \cup OccCable(s, n) \cup OccPin(s, n) \cup OccPort(s, n) :
                                                  Last(hh) = <<c.root.kind, c.root.id>>}}
      [] c.root.t = "E" -> ExpectedOfItem(s, n, c.fn, c.root.kind, c.root.id)
      [] c.root.t = "HS" ->     \* the union of what each reference alone gives
           UNION {ExpectedHQ(s, [c EXCEPT !.root = RootH(c.root.hs[j])]) : j \in DOMAIN c.root.hs}
      [] c.root.t = "M" -> (IF c.rec THEN occ ELSE {h \in occ : Depth(h) = (IF c.fn = "hinstances" THEN 2 ELSE 1)})
                           \cup ExpectedOfItem(s, n, c.fn, c.root.kind, c.root.x)
      [] c.root.t = "S" -> UNION {ExpectedOfElem(s, n, c.fn, c.root.kind, x) : x \in c.root.ids}
      [] c.root.t = "H" ->
           IF ~Valid(s, c.root.h) THEN {}
           ELSE IF c.sel = "DEFAULT" THEN     \* what lies inside that occurrence of an instance
                LET base == c.root.h
                    inside == {h \in occ : IsPrefixSeq(base, h) /\ h # base} IN
                IF c.rec THEN inside
                ELSE {h \in inside : Depth(h) = Depth(base) + (IF c.fn = "hinstances" THEN 1 ELSE 0)}
           ELSE IF c.fn = "hpins" THEN HPinsOfWire(s, c.root.h)
           ELSE CASE c.sel = "ALL" -> ConnectedAll(s, c.root.h)
                  [] c.sel = "INSIDE" -> InsideWire(s, c.root.h)
                  [] c.sel = "OUTSIDE" -> OutsideWire(s, c.root.h)

HNameStr(s, h) ==
    LET nm == HName(s, h)
        RECURSIVE Join(_)
        Join(q) == IF q = <<>> THEN "" ELSE IF Len(q) = 1 THEN q[1] ELSE q[1] \o "/" \o Join(Tail(q))
    IN Join(nm.toks) \o (IF nm.idx >= 0 THEN "[" \o ToString(nm.idx) \o "]" ELSE "")

ApplyX(s, c) ==
    CASE c.op = "hq"     -> [s |-> s, out |-> "ok", ret |-> ExpectedHQ(s, c)]
      [] c.op = "hcheck" -> [s |-> s, out |-> "ok",
                             ret |-> [j \in DOMAIN c.hs |-> [valid |-> Valid(s, c.hs[j]),
                                                            unique |-> Unique(s, c.hs[j])]]]
      [] c.op \in {"uniquify", "flatten"} ->
             IF ~(c.n \in IdsN(s)) \/ s.nlTop[c.n] = None \/ s.instRef[s.nlTop[c.n]] = None THEN Refuse(s)
             ELSE Ok(IF c.op = "uniquify" THEN Uniquify(s, c.n) ELSE Flatten(s, c.n))
      [] c.op = "q" -> [s |-> s, out |-> "ok", ret |-> <<>>]
      [] c.op = "parse_text" -> Ok(s)     \* the process-wide side is modelled in ParseSession.tla
      [] c.op = "compose2" -> Ok(s)       \* model: writing leaves the netlist alone (the EDIF writer's documented effects aside)
      [] c.op = "compare" -> [s |-> s, out |-> "ok", ret |-> <<Differs(s, c.a, c.b)>>]
      [] c.op \in {"edif_read", "edif_rt", "vlog_read", "vlog_rt", "eblif_read", "eblif_rt"} ->      \* model: a file round trip yields a self-contained copy
             IF ~(c.n \in IdsN(s)) THEN Refuse(s)
             ELSE LET r == CloneOf(s, "N", c.n) IN OkRet(r.s, <<r.root>>)
      [] c.op = "clone" ->
             IF ~Exists(s, c.kind, c.x) THEN Refuse(s)
             ELSE LET r == CloneOf(s, c.kind, c.x) IN OkRet(r.s, <<r.root>>)
      [] OTHER -> Apply(s, c)
RECURSIVE ApplySeqX(_, _)
ApplySeqX(s, cs) == IF cs = <<>> THEN s ELSE ApplySeqX(ApplyX(s, Head(cs)).s, Tail(cs))

---------------------------------------------------------------------------
(* Build alphabets: only VALID, structure-respecting construction steps, in *)
(* one canonical order, so that the reachable states of a build scope are   *)
(* exactly the designs of a family, each reached by one history.            *)
SlotsOf(s, d) ==      \* the pin slots of definition d: its own inner pins, then its children's outer pins
    [j \in DOMAIN PinsOfDef(s, d) |-> IPin(PinsOfDef(s, d)[j])]
    \o FlatSeq([k \in DOMAIN s.defKids[d] |->
                  [j \in DOMAIN s.instPins[s.defKids[d][k]] |->
                      OPin(s.defKids[d][k], s.instPins[s.defKids[d][k]][j].ip)]])
WiresOf(s, d) == FlatSeq([k \in DOMAIN s.defCables[d] |-> s.cabWires[s.defCables[d][k]]])
BuildCands(s, sc) ==
    (IF On(sc, "b:child")
     THEN {[op |-> "create_child", p |-> p, name |-> nm, ref |-> d] :
              <<p, nm, d>> \in {<<pp, nn, dd>> \in IdsD(s) \X sc.names \X IdsD(s) :
                  /\ dd < pp /\ pp \in sc.parents /\ Len(s.defKids[pp]) < sc.maxKids
                  /\ Room(s, sc, "I")
                  /\ (nn = NoVal \/ \A y \in SeqSet(s.defKids[pp]) : s.instData[y].name # nn)
                  \* canonical: names are used in order, an unnamed child only after the named ones
                  /\ \A y \in SeqSet(s.defKids[pp]) : s.instRef[y] <= dd
                  \* no instance pin has been connected yet in the parent (children first, then their wires)
                  /\ \A y \in SeqSet(s.defKids[pp]) : \A j \in DOMAIN s.instPins[y] : s.instPins[y][j].wire = None}}
     ELSE {})
    \cup (IF On(sc, "b:connect")
     THEN UNION {LET slots == SlotsOf(s, d)
                     used == {j \in DOMAIN slots : WireOfRef(s, slots[j]) # None}
                     from == IF used = {} THEN 1 ELSE 1 + CHOOSE m \in used : \A u \in used : u <= m
                 IN {[op |-> "connect", w |-> w, pin |-> slots[j], pos |-> pos] :
                        <<w, j, pos>> \in SeqSet(WiresOf(s, d)) \X (from..Len(slots)) \X sc.pos}
                 : d \in sc.parents \cap IdsD(s)}
     ELSE {})

(* walks: any free pin slot of a definition to any wire of that definition (local, in no particular order) *)
LocalConnectCands(s, sc) ==
    IF On(sc, "l:connect")
    THEN UNION {LET slots == SlotsOf(s, d) IN
                {[op |-> "connect", w |-> w, pin |-> slots[j], pos |-> pos] :
                    <<w, j, pos>> \in SeqSet(WiresOf(s, d)) \X {jj \in DOMAIN slots : WireOfRef(s, slots[jj]) = None} \X sc.pos}
                : d \in sc.parents \cap IdsD(s)}
    ELSE {}
(* queries offered in a state (the calls whose answers the oracle judges) *)
Fns == {"hinstances", "hports", "hpins", "hcables", "hwires"}
QueryCandsC11(s) ==
    LET n == TheNetlist(s) IN
    {HQ(fn, RootN(n), rec) : <<fn, rec>> \in Fns \X BOOLEAN}
    \cup {HQ("hinstances", RootE("I", i), FALSE) : i \in IdsI(s)}
    \cup {HQ(fn, RootE("D", d), FALSE) : <<fn, d>> \in Fns \X IdsD(s)}
    \cup {HQ(fn, RootE("L", l), FALSE) : <<fn, l>> \in Fns \X IdsL(s)}
    \cup {HQ("hinstances", RootS("I", X), FALSE) : X \in {Y \in SUBSET IdsI(s) : Cardinality(Y) = 2}}
    \cup {HQ("hinstances", RootS("D", X), FALSE) : X \in {Y \in SUBSET IdsD(s) : Cardinality(Y) = 2}}
    \cup {HQ("hports", RootE("P", x), FALSE) : x \in IdsP(s)}
    \cup {HQ("hpins", RootE("Q", x), FALSE) : x \in IdsQ(s)}
    \cup {HQ("hcables", RootE("C", x), FALSE) : x \in IdsC(s)}
    \cup {HQ("hwires", RootE("W", x), FALSE) : x \in IdsW(s)}
    \* two instance references as roots, one the parent of the other, in both orders
    \cup {HQ("hinstances", RootHS(hs), rec) :
             <<hs, rec>> \in (UNION {{<<Front(h), h>>, <<h, Front(h)>>} : h \in {hh \in OccInst(s, n) : Len(hh) >= 2}}) \X BOOLEAN}
    \* ports and pins as roots of cable / wire queries, alone and in a collection together with the netlist
    \cup {HQ(fn, RootE("P", x), FALSE) : <<fn, x>> \in {"hcables", "hwires"} \X IdsP(s)}
    \cup {HQ(fn, RootE("Q", x), FALSE) : <<fn, x>> \in {"hcables", "hwires"} \X IdsQ(s)}
    \cup {HQ(fn, RootM(n, k[1], k[2]), rec) :
             <<fn, k, rec>> \in {"hcables", "hwires"} \X ({<<"P", x>> : x \in IdsP(s)} \cup {<<"Q", x>> : x \in IdsQ(s)}) \X BOOLEAN}
    \cup {HQ(fn, RootH(h), rec) : <<fn, h, rec>> \in Fns \X (OccInst(s, n) \cup {<< <<"I", TopOf(s, n)>> >>}) \X BOOLEAN}
QueryCandsC12(s) ==
    LET n == TheNetlist(s) IN
    {HQS("hwires", RootH(h), "ALL") : h \in OccWire(s, n) \cup OccCable(s, n) \cup OccPin(s, n) \cup OccPort(s, n)}
    \cup {HQS("hwires", RootH(h), sel) : <<h, sel>> \in OccPin(s, n) \X {"INSIDE", "OUTSIDE"}}
    \cup {HQS("hpins", RootH(h), "NONE") : h \in OccWire(s, n)}
    \* started from the element itself (not from one hierarchical occurrence of it)
    \cup {HQS("hwires", RootE("W", x), "ALL") : x \in IdsW(s)} \cup {HQS("hwires", RootE("C", x), "ALL") : x \in IdsC(s)}
    \cup {HQS("hwires", RootE("Q", x), "ALL") : x \in IdsQ(s)} \cup {HQS("hwires", RootE("P", x), "ALL") : x \in IdsP(s)}
    \* pins = list(get_hpins(wire)); get_hwires(pins, selection): the user's LIST of hierarchical pins as the start
    \cup {HQS("hwires", RootHS(SetToSeqAny(HPinsOfWire(s, h))), sel) :
             <<h, sel>> \in {hh \in OccWire(s, n) : HPinsOfWire(s, hh) # {}} \X {"ALL", "INSIDE", "OUTSIDE"}}
(* clone with every element of the design as the root *)
CloneCands(s) ==
    {[op |-> "clone", kind |-> kind, x |-> x] :
        <<kind, x>> \in UNION {{<<k, y>> : y \in 1..CountOf(s, k)} : k \in Kinds}}
(* the transformation pipeline offered in a design of the transform scopes *)
(* uniquify; uniquify; flatten - and: uniquify, re-point one hierarchical instance to the (now private)      *)
(* definition of another one so that it is shared again, uniquify again                                      *)
XfCands(s) ==
    LET U == [op |-> "uniquify", n |-> 1]
        s1 == ApplyX(s, U).s
        shareAgain == {<<i, j>> \in IdsI(s1) \X IdsI(s1) :
                          /\ i # j /\ s1.instRef[i] # None /\ s1.instRef[j] # None /\ s1.instRef[i] # s1.instRef[j]
                          /\ s1.instParent[i] # None /\ s1.instParent[j] # None
                          /\ s1.defKids[s1.instRef[j]] # <<>>
                          /\ LET r == Apply(s1, [op |-> "set_ref", i |-> i, d |-> s1.instRef[j]]) IN
                             r.out = "ok" /\ Acyclic(r.s)}
        \* one pair whose target definition was created by the first pass, one whose target is an original
        newT == {p \in shareAgain : s1.instRef[p[2]] > NumD(s)}
        oldT == shareAgain \ newT
        pick == (IF newT = {} THEN {} ELSE {CHOOSE p \in newT : TRUE}) \cup (IF oldT = {} THEN {} ELSE {CHOOSE p \in oldT : TRUE})
    IN {[op |-> "seq", calls |-> << U, U, [op |-> "flatten", n |-> 1] >>]}
       \cup {[op |-> "seq", calls |-> << U, [op |-> "set_ref", i |-> p[1], d |-> s1.instRef[p[2]]], U >>] : p \in pick}
(* flatten, extend the flat design by a NEW hierarchical cell (a cable with an identifier, a leaf inside), flatten again *)
XfAgainCands(s) ==
    LET U == [op |-> "uniquify", n |-> 1]  F == [op |-> "flatten", n |-> 1]
        s2 == ApplySeqX(s, <<U, F>>)
        d == NumD(s2) + 1  c == NumC(s2) + 1
        topd == s2.instRef[s2.nlTop[1]]
    IN {[op |-> "seq", calls |-> << U, F,
                                   [op |-> "create", rel |-> "LD", p |-> s2.defLib[topd], name |-> "h", n |-> 0],
                                   [op |-> "create", rel |-> "DC", p |-> d, name |-> "hc", n |-> 1],
                                   [op |-> "set_item", kind |-> "C", x |-> c, key |-> "eid", val |-> "hc"],
                                   [op |-> "create_child", p |-> d, name |-> "hl", ref |-> 1],
                                   [op |-> "create_child", p |-> topd, name |-> "hh", ref |-> d],
                                   U, F >>]}
(* queries that take part in random walks (scopes with walk = TRUE): they are steps of the       *)
(* behaviour, so that queries, renames and structural edits interleave on the same objects       *)
WalkQueryCands(s) ==
    {HQ(fn, RootN(TheNetlist(s)), TRUE) : fn \in Fns}
    \cup {HQ("hinstances", RootE("D", d), FALSE) : d \in IdsD(s)}
(* references to test for validity/uniqueness: every valid one plus chains  *)
(* that are wrong in one place                                              *)
HCheckCands(s) ==
    LET chains == {<< <<"I", a>> >> : a \in IdsI(s)}
                  \cup {<< <<"I", a>>, <<"I", b>> >> : <<a, b>> \in IdsI(s) \X IdsI(s)}
                  \cup {<< <<"I", a>>, <<"I", b>>, <<"I", c>> >> : <<a, b, c>> \in IdsI(s) \X IdsI(s) \X IdsI(s)}
        deep == {h \in OccInst(s, TheNetlist(s)) : Len(h) >= 4}       \* every occurrence deeper than the enumerated chains
        short == {h \in chains : Len(h) <= 2}
        items == {<< <<"P", x>> >> : x \in IdsP(s)} \cup {<< <<"C", x>> >> : x \in IdsC(s)}
                 \cup {<< <<"P", s.pinPort[q]>>, <<"Q", q>> >> : q \in {qq \in IdsQ(s) : s.pinPort[qq] # None}}
                 \cup {<< <<"C", s.wireCable[w]>>, <<"W", w>> >> : w \in {ww \in IdsW(s) : s.wireCable[ww] # None}}
        all == chains \cup deep \cup {a \o b : <<a, b>> \in short \X items}
    IN {HCheck(SetToSeqAny(all))}
=============================================================================
